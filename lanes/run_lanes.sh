#!/bin/bash
# Sanitizer / interpreter lanes attached to a property and tier (called by ./check after the
# main workload held).  A lane report is a violation of the property whose workload produced it.
#   every property but C20, both tiers -> "relprofile": the same workload (reduced) on the harness
#             built the way a consumer's --release build is (no debug assertions, wrapping
#             arithmetic): code under cfg(not(debug_assertions)) and silent wrap-around only exist there
#             -> "allfeat": the same, with every optional feature of nexrad-model switched on
#             (chrono, uom, serde: no workspace member enables them, a downstream user may)
#   every property but C20             -> "farclock": the same workload with the process's wall clock
#             moved (LD_PRELOAD shim over clock_gettime/gettimeofday/time; monotonic clocks untouched)
#   C02-C04, C07-C14                   -> "minfeat": the same, with nexrad-decode built *without*
#             its default `uom` feature (only possible in a build that does not contain nexrad-data,
#             whose dependency on nexrad-decode switches the defaults back on)
#   quick:    C05, C06            -> valgrind memcheck on the optimized harness (reduced workload)
#   thorough: every property but C20 -> ASan (libbz2 itself instrumented): since a change may relax
#             forbid(unsafe_code), memory errors are no longer confined to the C library
#             C01, C03, C05, C06, C13, C14, C16, C19 -> valgrind memcheck as well (uninitialised reads)
#             C02, C04, C07, C10  -> Miri on the pure-Rust decode/model paths (a lane each)
#             C03, C08, C09, C11-C14 -> Miri, one shared lane ("rest")
#             C01-C14, C16, C19   -> ThreadSanitizer (std rebuilt with -Zbuild-std): data races in
#             state a change made `unsafe`ly shared; the shadow runs provide the concurrent callers
#   (the main run of every check has the guard allocator of harness/src/mon.rs; the valgrind and
#    ASan lanes switch it off, VERIF_GUARD_ALLOC=0, so that the tools see the memory as it is)
set -u
ROOT="$(cd "$(dirname "$0")/.." && pwd)"
PROP="$1"; TIER="$2"
SEED="${VERIF_SEED:-1}"
OUT="$ROOT/lanes/out/$PROP-$TIER"
export CARGO_NET_OFFLINE=true

lanes=()
case "$TIER:$PROP" in
  quick:C05|quick:C06) lanes=(valgrind) ;;
  thorough:C03|thorough:C13|thorough:C14) lanes=(valgrind asan tsan miri) ;;
  thorough:C05|thorough:C06|thorough:C01|thorough:C16|thorough:C19) lanes=(valgrind asan tsan) ;;
  thorough:C02|thorough:C04|thorough:C07|thorough:C10|thorough:C08|thorough:C09|thorough:C11|thorough:C12) lanes=(miri asan tsan) ;;
  thorough:C20) ;;
  thorough:*) lanes=(asan) ;;
esac
case "$PROP" in
  C20) ;;
  *) lanes+=(farclock) ;;
esac
case "$PROP" in
  C20) lanes=() ;;
  C02|C03|C04|C07|C08|C09|C10|C11|C12|C13|C14) lanes+=(relprofile allfeat minfeat) ;;
  *) lanes+=(relprofile allfeat) ;;
esac
[ ${#lanes[@]} -eq 0 ] && exit 0
[ "${VERIF_NO_LANES:-0}" = "1" ] && exit 0
rm -rf "$OUT"; mkdir -p "$OUT"
RC=0
SUMMARY="$OUT/summary.jsonl"; : > "$SUMMARY"

note() { # lane inputs reports wall_s cmd status
  python3 - "$@" >> "$SUMMARY" <<'PY'
import json,sys
lane,inputs,reports,wall,cmd,status=sys.argv[1:7]
print(json.dumps({"lane":lane,"inputs":int(inputs),"reports":int(reports),"wall_s":float(wall),"cmd":cmd,"status":status}))
PY
}

evals_of() { python3 -c "import json,sys; print(json.load(open(sys.argv[1]))['coverage']['evaluations'])" "$1" 2>/dev/null || echo 0; }

for lane in "${lanes[@]}"; do
  T0=$(date +%s.%N)
  case "$lane" in
    valgrind)
      LOG="$OUT/valgrind.log"; mkdir -p "$OUT/vg-evidence"
      DIV=12; [ "$PROP" = "C05" ] && DIV=2
      export VERIF_SHADOWS=1
      CMD="valgrind -q --error-exitcode=9 --errors-for-leak-kinds=definite --leak-check=full $ROOT/harness/target/release/nxverif $PROP quick"
      VERIF_GUARD_ALLOC=0 VERIF_THREADS=4 VERIF_CASES_DIV=$DIV VERIF_EVIDENCE_DIR="$OUT/vg-evidence" VERIF_REPLAY_DIR="$OUT" VERIF_WATCHDOG_S=1500 \
        valgrind -q --error-exitcode=9 --errors-for-leak-kinds=definite --leak-check=full --log-file="$OUT/valgrind.memcheck" \
        "$ROOT/harness/target/release/nxverif" "$PROP" quick > "$LOG" 2>&1
      LRC=$?
      REPORTS=$(grep -c '^==[0-9]*== [A-Z].*' "$OUT/valgrind.memcheck" 2>/dev/null | head -1); REPORTS=${REPORTS:-0}
      INPUTS=$(evals_of "$OUT/vg-evidence/$PROP.json")
      if [ $LRC -eq 9 ] || [ "$REPORTS" != "0" ]; then
        echo "violation-detail: [valgrind memcheck report while running the $PROP workload] see $OUT/valgrind.memcheck"
        head -30 "$OUT/valgrind.memcheck"
        echo "VIOLATION property=$PROP replay=$OUT/valgrind.memcheck"; RC=1; STATUS=report
      elif [ $LRC -ne 0 ]; then
        if grep -q '^VIOLATION' "$LOG"; then grep -E '^(violation-detail|VIOLATION)' "$LOG"; RC=1; STATUS=violation
        else echo "INCONCLUSIVE: property=$PROP valgrind lane exited $LRC (see $LOG)"; RC=2; STATUS=inconclusive; fi
      else STATUS=clean; fi
      echo "observed: lane=valgrind-memcheck property=$PROP inputs=$INPUTS reports=$REPORTS"
      note valgrind-memcheck "$INPUTS" "$REPORTS" "$(echo "$(date +%s.%N) - $T0" | bc)" "$CMD" "$STATUS"
      ;;
    asan)
      LOG="$OUT/asan.log"; mkdir -p "$OUT/asan-evidence"
      ( cd "$ROOT/harness" && CC=clang-14 CFLAGS="-fsanitize=address -fno-omit-frame-pointer" \
          RUSTFLAGS="-Zsanitizer=address -Cforce-frame-pointers=yes" \
          cargo +nightly build --release --offline --target x86_64-unknown-linux-gnu --target-dir "$ROOT/harness/target-asan" ) > "$OUT/asan-build.log" 2>&1
      if [ $? -ne 0 ]; then
        echo "INCONCLUSIVE: property=$PROP ASan build of the harness failed (see $OUT/asan-build.log)"; RC=2
        note asan+libbz2 0 0 0 "build" inconclusive; continue
      fi
      BIN="$ROOT/harness/target-asan/x86_64-unknown-linux-gnu/release/nxverif"
      INSTR=$(find "$ROOT/harness/target-asan" -name 'libbz2.a' | head -1 | xargs -r nm 2>/dev/null | grep -c '__asan_' || true)
      CMD="ASAN_OPTIONS=halt_on_error=1:abort_on_error=0:detect_leaks=1:exitcode=66 $BIN $PROP quick"
      ASAN_OPTIONS="halt_on_error=1:abort_on_error=0:detect_leaks=1:exitcode=66:log_path=$OUT/asan-report" \
        VERIF_GUARD_ALLOC=0 VERIF_CASES_DIV=2 VERIF_EVIDENCE_DIR="$OUT/asan-evidence" VERIF_REPLAY_DIR="$OUT" "$BIN" "$PROP" quick > "$LOG" 2>&1
      LRC=$?
      REPORTS=$(ls "$OUT"/asan-report.* 2>/dev/null | wc -l)
      INPUTS=$(evals_of "$OUT/asan-evidence/$PROP.json")
      if [ "$REPORTS" != "0" ] || [ $LRC -eq 66 ]; then
        R=$(ls "$OUT"/asan-report.* 2>/dev/null | head -1)
        echo "violation-detail: [AddressSanitizer report while running the $PROP workload (libbz2 instrumented)]"; head -20 "${R:-$LOG}"
        echo "VIOLATION property=$PROP replay=${R:-$LOG}"; RC=1; STATUS=report
      elif [ $LRC -ne 0 ]; then
        if grep -q '^VIOLATION' "$LOG"; then grep -E '^(violation-detail|VIOLATION)' "$LOG"; RC=1; STATUS=violation
        else echo "INCONCLUSIVE: property=$PROP ASan lane exited $LRC (see $LOG)"; RC=2; STATUS=inconclusive; fi
      else STATUS=clean; fi
      echo "observed: lane=asan+instrumented-libbz2 property=$PROP inputs=$INPUTS reports=$REPORTS libbz2_asan_symbols=$INSTR"
      note "asan+libbz2(asan symbols in libbz2.a: $INSTR)" "$INPUTS" "$REPORTS" "$(echo "$(date +%s.%N) - $T0" | bc)" "$CMD" "$STATUS"
      ;;
    tsan)
      LOG="$OUT/tsan.log"; mkdir -p "$OUT/tsan-evidence"
      ( cd "$ROOT/harness" && CC=clang-14 CFLAGS="-fsanitize=thread" RUSTFLAGS="-Zsanitizer=thread" \
          cargo +nightly build -Zbuild-std --release --offline --target x86_64-unknown-linux-gnu --target-dir "$ROOT/harness/target-tsan" ) > "$OUT/tsan-build.log" 2>&1
      if [ $? -ne 0 ]; then
        echo "INCONCLUSIVE: property=$PROP TSan build of the harness failed (see $OUT/tsan-build.log)"; RC=2
        note tsan 0 0 0 "build" inconclusive; continue
      fi
      BIN="$ROOT/harness/target-tsan/x86_64-unknown-linux-gnu/release/nxverif"
      CMD="TSAN_OPTIONS=halt_on_error=0:exitcode=66 VERIF_CASES_DIV=8 $BIN $PROP quick   # built with -Zsanitizer=thread -Zbuild-std"
      TSAN_OPTIONS="halt_on_error=0:exitcode=66:log_path=$OUT/tsan-report" \
        VERIF_GUARD_ALLOC=0 VERIF_CASES_DIV=8 VERIF_EVIDENCE_DIR="$OUT/tsan-evidence" VERIF_REPLAY_DIR="$OUT" VERIF_WATCHDOG_S=3000 "$BIN" "$PROP" quick > "$LOG" 2>&1
      LRC=$?
      REPORTS=$(cat "$OUT"/tsan-report.* 2>/dev/null | grep -c 'WARNING: ThreadSanitizer')
      INPUTS=$(evals_of "$OUT/tsan-evidence/$PROP.json")
      if [ "$REPORTS" != "0" ] || [ $LRC -eq 66 ]; then
        R=$(ls "$OUT"/tsan-report.* 2>/dev/null | head -1)
        echo "violation-detail: [ThreadSanitizer report while running the $PROP workload with its shadow runs]"; grep -A14 'WARNING: ThreadSanitizer' "${R:-$LOG}" | head -24
        echo "VIOLATION property=$PROP replay=${R:-$LOG}"; RC=1; STATUS=report
      elif [ $LRC -ne 0 ]; then
        if grep -q '^VIOLATION' "$LOG"; then grep -E '^(violation-detail|VIOLATION)' "$LOG" | sed "s/^violation-detail: \\[/violation-detail: [under ThreadSanitizer: /" | head -8; RC=1; STATUS=violation
        else echo "INCONCLUSIVE: property=$PROP TSan lane exited $LRC (see $LOG)"; RC=2; STATUS=inconclusive; fi
      else STATUS=clean; fi
      echo "observed: lane=tsan property=$PROP inputs=$INPUTS reports=$REPORTS"
      note "tsan(-Zbuild-std)" "$INPUTS" "$REPORTS" "$(echo "$(date +%s.%N) - $T0" | bc)" "$CMD" "$STATUS"
      ;;
    relprofile|allfeat|minfeat)
      # the same harness, the same workload (reduced), built another way
      case "$lane" in
        relprofile) BUILD=(cargo build --profile relwrap --offline); BIN="$ROOT/harness/target/relwrap/nxverif"; DIV=4
                    LABEL="release-profile(no debug assertions, wrapping arithmetic)"; TAG="release profile" ;;
        allfeat)    BUILD=(cargo build --release --offline --features allfeat --target-dir "$ROOT/harness/target-allfeat"); BIN="$ROOT/harness/target-allfeat/release/nxverif"; DIV=6
                    LABEL="all-features(nexrad-model with chrono, uom, serde switched on)"; TAG="all optional features on" ;;
        minfeat)    BUILD=(cargo build --release --offline --no-default-features --features bz --target-dir "$ROOT/harness/target-minfeat"); BIN="$ROOT/harness/target-minfeat/release/nxverif"; DIV=6
                    LABEL="reduced-features(nexrad-decode without uom, no nexrad-data in the build)"; TAG="reduced features" ;;
      esac
      [ "$TIER" = "thorough" ] && DIV=$((DIV*2))
      LOG="$OUT/$lane.log"; mkdir -p "$OUT/$lane-evidence"
      ( cd "$ROOT/harness" && "${BUILD[@]}" ) > "$OUT/$lane-build.log" 2>&1
      if [ $? -ne 0 ]; then
        echo "INCONCLUSIVE: property=$PROP $lane build of the harness failed (see $OUT/$lane-build.log)"; RC=2
        note "$LABEL" 0 0 0 "build" inconclusive; continue
      fi
      CMD="VERIF_CASES_DIV=$DIV $BIN $PROP $TIER   # built with: ${BUILD[*]}"
      VERIF_CASES_DIV=$DIV VERIF_EVIDENCE_DIR="$OUT/$lane-evidence" VERIF_REPLAY_DIR="$OUT" "$BIN" "$PROP" "$TIER" > "$LOG" 2>&1
      LRC=$?
      INPUTS=$(evals_of "$OUT/$lane-evidence/$PROP.json")
      REPORTS=$(grep -c '^VIOLATION' "$LOG")
      if [ $LRC -eq 1 ] || [ "$REPORTS" != "0" ]; then
        grep -E '^(violation-detail|VIOLATION)' "$LOG" | sed "s/^violation-detail: \\[/violation-detail: [$TAG: /" | head -12
        RC=1; STATUS=violation
      elif [ $LRC -ne 0 ]; then
        case $LRC in
          132|134|136|139) echo "violation-detail: [$TAG: process crashed with exit status $LRC while running the $PROP workload] $(tail -3 "$LOG" | tr '\n' ' ')"
               echo "VIOLATION property=$PROP replay=$LOG"; RC=1; STATUS=crash ;;
          *) echo "INCONCLUSIVE: property=$PROP $lane lane exited $LRC (see $LOG)"; grep -E '^(INCONCLUSIVE|HARNESS)' "$LOG" | head -3; RC=2; STATUS=inconclusive ;;
        esac
      else STATUS=clean; fi
      echo "observed: lane=$lane property=$PROP inputs=$INPUTS reports=$REPORTS"
      note "$LABEL" "$INPUTS" "$REPORTS" "$(echo "$(date +%s.%N) - $T0" | bc)" "$CMD" "$STATUS"
      ;;
    farclock)
      # the same harness and workload (reduced) with the wall clock moved: past 2038 onto a leap
      # day, to the edge of the 32-bit epoch, or to the last minute of 2099 (by seed)
      LOG="$OUT/farclock.log"; mkdir -p "$OUT/farclock-evidence"
      SO="$ROOT/lanes/clock/nxclock.so"
      if [ ! -f "$SO" ] || [ "$ROOT/lanes/clock/shim.c" -nt "$SO" ]; then
        ( clang-14 -O2 -shared -fPIC -w -o "$SO" "$ROOT/lanes/clock/shim.c" -ldl || cc -O2 -shared -fPIC -w -o "$SO" "$ROOT/lanes/clock/shim.c" -ldl ) > "$OUT/farclock-build.log" 2>&1
      fi
      if [ ! -f "$SO" ]; then
        echo "INCONCLUSIVE: property=$PROP wall-clock shim does not build (see $OUT/farclock-build.log)"; RC=2
        note "far-clock" 0 0 0 "build" inconclusive; continue
      fi
      case $(( SEED % 3 )) in
        0) WHEN="2040-02-29 23:59:20" ;;
        1) WHEN="2038-01-19 03:13:50" ;;
        *) WHEN="2099-12-31 23:59:00" ;;
      esac
      OFF=$(( $(date -u -d "$WHEN" +%s) - $(date -u +%s) ))
      BIN="$ROOT/harness/target/release/nxverif"
      case "$PROP" in C15|C17|C18|C19) DIV=4 ;; *) DIV=8 ;; esac
      [ "$TIER" = "thorough" ] && DIV=$((DIV*2))
      CMD="LD_PRELOAD=lanes/clock/nxclock.so VERIF_CLOCK_OFFSET_S=$OFF VERIF_CASES_DIV=$DIV $BIN $PROP $TIER   # wall clock starts at $WHEN UTC"
      LD_PRELOAD="$SO" VERIF_CLOCK_OFFSET_S=$OFF VERIF_CASES_DIV=$DIV VERIF_EVIDENCE_DIR="$OUT/farclock-evidence" VERIF_REPLAY_DIR="$OUT" "$BIN" "$PROP" "$TIER" > "$LOG" 2>&1
      LRC=$?
      INPUTS=$(evals_of "$OUT/farclock-evidence/$PROP.json")
      REPORTS=$(grep -c '^VIOLATION' "$LOG")
      if [ $LRC -eq 1 ] || [ "$REPORTS" != "0" ]; then
        grep -E '^(violation-detail|VIOLATION)' "$LOG" | sed "s/^violation-detail: \\[/violation-detail: [wall clock at $WHEN: /" | head -12
        RC=1; STATUS=violation
      elif [ $LRC -ne 0 ]; then
        case $LRC in
          132|134|136|139) echo "violation-detail: [wall clock at $WHEN: process crashed with exit status $LRC while running the $PROP workload] $(tail -3 "$LOG" | tr '\n' ' ')"
               echo "VIOLATION property=$PROP replay=$LOG"; RC=1; STATUS=crash ;;
          *) echo "INCONCLUSIVE: property=$PROP farclock lane exited $LRC (see $LOG)"; grep -E '^(INCONCLUSIVE|HARNESS)' "$LOG" | head -3; RC=2; STATUS=inconclusive ;;
        esac
      else STATUS=clean; fi
      echo "observed: lane=farclock property=$PROP inputs=$INPUTS reports=$REPORTS wall_clock_start=\"$WHEN\""
      note "far-clock(wall clock started at $WHEN UTC through an LD_PRELOAD shim)" "$INPUTS" "$REPORTS" "$(echo "$(date +%s.%N) - $T0" | bc)" "$CMD" "$STATUS"
      ;;
    miri)
      L=$(echo "$PROP" | tr A-Z a-z)
      case "$L" in c02) CASES=1024 ;; c04) CASES=960 ;; c07) CASES=192 ;; c10) CASES=2048 ;;
        # the properties without a lane of their own share one (decoders, accessors, Debug, summariser, grouping / merging)
        *) L=rest; CASES=384 ;; esac
      NSH=16
      ( cd "$ROOT/lanes/miri" && cargo +nightly miri run --offline -q -- "$L" 0 1 "$SEED" 0 ) > "$OUT/miri-build.log" 2>&1
      if ! grep -q MIRI-LANE-OK "$OUT/miri-build.log"; then
        echo "INCONCLUSIVE: property=$PROP Miri lane does not build/run (see $OUT/miri-build.log)"; RC=2
        note miri 0 0 0 "build" inconclusive; continue
      fi
      pids=()
      for s in $(seq 0 $((NSH-1))); do
        ( cd "$ROOT/lanes/miri" && cargo +nightly miri run --offline -q -- "$L" "$s" "$NSH" "$SEED" "$CASES" ) > "$OUT/miri-$s.log" 2>&1 &
        pids+=($!)
      done
      BAD=0
      for i in "${!pids[@]}"; do wait "${pids[$i]}" || BAD=$((BAD+1)); done
      DONE=$(cat "$OUT"/miri-[0-9]*.log | grep -o 'MIRI-LANE-OK.*cases=[0-9]*' | sed 's/.*cases=//' | paste -sd+ | bc); DONE=${DONE:-0}
      REPORTS=$(grep -l -E 'Undefined Behavior|MIRI-LANE-MISMATCH|error: ' "$OUT"/miri-[0-9]*.log 2>/dev/null | wc -l)
      CMD="cd lanes/miri && cargo +nightly miri run --offline -- $L <shard> $NSH $SEED $CASES"
      if [ "$REPORTS" != "0" ] || [ $BAD -ne 0 ]; then
        R=$(grep -l -E 'Undefined Behavior|MIRI-LANE-MISMATCH|error: ' "$OUT"/miri-[0-9]*.log 2>/dev/null | head -1)
        echo "violation-detail: [Miri report / oracle mismatch while interpreting the $PROP workload]"; grep -E 'Undefined Behavior|MIRI-LANE-MISMATCH|error' -A6 "${R:-$OUT/miri-0.log}" | head -30
        echo "VIOLATION property=$PROP replay=${R:-$OUT/miri-0.log}"; RC=1; STATUS=report
      else STATUS=clean; fi
      echo "observed: lane=miri property=$PROP inputs=$DONE reports=$REPORTS shards=$NSH"
      note miri "$DONE" "$REPORTS" "$(echo "$(date +%s.%N) - $T0" | bc)" "$CMD" "$STATUS"
      ;;
  esac
done

# merge the lane summary into the property's evidence file
python3 - "$ROOT/evidence/$PROP.json" "$SUMMARY" <<'PY'
import json,sys
p,s=sys.argv[1:3]
try:
    e=json.load(open(p))
    e["coverage"]["lanes"]=[json.loads(l) for l in open(s) if l.strip()]
    json.dump(e,open(p,"w"),indent=1); open(p,"a").write("\n")
except Exception as ex:
    print("HARNESS-ERROR: cannot merge lane summary:",ex); sys.exit(2)
PY
[ $? -ne 0 ] && RC=2
exit $RC
