// Wall-clock shim for the "farclock" lane: shifts CLOCK_REALTIME (and gettimeofday / time) by
// VERIF_CLOCK_OFFSET_S seconds for the process it is preloaded into.  Monotonic clocks, which
// timers and timeouts use, are left alone.  The library under test is UTC throughout and may
// consult the wall clock (Utc::now()) only to compare it with bucket times, so no property may
// depend on *when* it runs: the far side of 2038, a leap day, the last seconds of a year.
#define _GNU_SOURCE
#include <dlfcn.h>
#include <stdlib.h>
#include <time.h>
#include <sys/time.h>

static long long offset_s(void) {
    static int init = 0;
    static long long off = 0;
    if (!init) {
        const char *e = getenv("VERIF_CLOCK_OFFSET_S");
        off = e ? atoll(e) : 0;
        init = 1;
    }
    return off;
}

int clock_gettime(clockid_t id, struct timespec *ts) {
    static int (*real)(clockid_t, struct timespec *) = 0;
    if (!real) real = (int (*)(clockid_t, struct timespec *))dlsym(RTLD_NEXT, "clock_gettime");
    int r = real(id, ts);
    if (r == 0 && (id == CLOCK_REALTIME || id == CLOCK_REALTIME_COARSE)) ts->tv_sec += offset_s();
    return r;
}

int gettimeofday(struct timeval *tv, void *tz) {
    static int (*real)(struct timeval *, void *) = 0;
    if (!real) real = (int (*)(struct timeval *, void *))dlsym(RTLD_NEXT, "gettimeofday");
    int r = real(tv, tz);
    if (r == 0 && tv) tv->tv_sec += offset_s();
    return r;
}

time_t time(time_t *t) {
    struct timespec ts;
    clock_gettime(CLOCK_REALTIME, &ts);
    if (t) *t = ts.tv_sec;
    return ts.tv_sec;
}
