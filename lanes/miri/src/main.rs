//! Miri lane: re-runs reduced C02 / C04 / C07 / C10 workloads on the pure-Rust decode and model
//! paths under the undefined-behaviour interpreter.  A Miri diagnostic aborts the process, which the
//! lane runner reports as a violation of the property whose workload produced it; oracle
//! mismatches are also reported (exit 3) so that a value slip seen only under Miri is not lost.
//!
//! usage: nxmiri <c02|c04|c07|c10> <shard> <nshards> <seed> <cases>
#![allow(dead_code)]

#[path = "../../../harness/src/rng.rs"]
mod rng;
#[path = "../../../harness/src/enc.rs"]
mod enc;
#[path = "../../../harness/src/cal.rs"]
mod cal;
#[path = "../../../harness/src/props/cmp31.rs"]
mod cmp31;

use nexrad_decode::messages::digital_radar_data::decode_digital_radar_data;
use nexrad_decode::messages::{decode_message_header, decode_messages};
use rng::Rng;
use std::io::Cursor;
use std::panic::{catch_unwind, AssertUnwindSafe};

fn fail(lane: &str, what: String) -> ! {
    println!("MIRI-LANE-MISMATCH lane={} {}", lane, what);
    std::process::exit(3);
}

fn lane_c02(shard: u64, nshards: u64, seed: u64, cases: u64) -> u64 {
    let mut n = 0;
    // subsets enumerated across shards: subset = case index mod 1024
    for i in (shard..cases).step_by(nshards as usize) {
        let mut rng = Rng::derive(seed, 2, 9_000_000 + i);
        let subset = (i % 1024) as u16;
        let mut spec = enc::gen_msg31(&mut rng, subset, i % 2 == 1, false);
        for b in spec.blocks.iter_mut() {
            if let enc::Block::Mom(m) = b {
                m.gates %= 24; // interpreter speed
                m.data.truncate(m.gates as usize * (m.word as usize / 8));
            }
        }
        let body = spec.encode(&mut rng);
        match decode_digital_radar_data(&mut Cursor::new(&body[..])) {
            Err(e) => fail("c02", format!("case {} subset {:#x}: decode error {:?}", i, subset, e)),
            Ok(m) => {
                let d = cmp31::compare(&spec, &m);
                if let Some(x) = d.first() {
                    fail("c02", format!("case {} subset {:#x}: field {} {}", i, subset, x.field, x.detail));
                }
            }
        }
        n += 1;
    }
    n
}

fn mutate(rng: &mut Rng, mut b: Vec<u8>) -> Vec<u8> {
    if b.is_empty() {
        return b;
    }
    for _ in 0..rng.urange(1, 6) {
        let pos = if rng.chance(3, 4) { rng.usize_below(b.len().min(96)) } else { rng.usize_below(b.len()) };
        match rng.below(4) {
            0 => b[pos] ^= 1 << rng.below(8),
            1 => b[pos] = *rng.pick(&[0u8, 0xFF, 0x7F, 0x80, 1]),
            2 => {
                let p = pos & !1;
                if p + 1 < b.len() {
                    let v = *rng.pick(&[0u16, 1, 52, 255, 360, 0x7FFF, 0x8000, 0xFFFF]);
                    b[p..p + 2].copy_from_slice(&v.to_be_bytes());
                }
            }
            _ => {
                let p = pos & !3;
                if p + 3 < b.len() {
                    let v = *rng.pick(&[0u32, 28, 32, 68, 0x7FFF_FFFF, 0xFFFF_FFFF]);
                    b[p..p + 4].copy_from_slice(&v.to_be_bytes());
                }
            }
        }
    }
    b
}

fn lane_c04(shard: u64, nshards: u64, seed: u64, cases: u64) -> u64 {
    use nexrad_decode::messages::clutter_filter_map::decode_clutter_filter_map;
    use nexrad_decode::messages::rda_status_data::decode_rda_status_message;
    use nexrad_decode::messages::volume_coverage_pattern::decode_volume_coverage_pattern;
    let mut n = 0;
    for i in (shard..cases).step_by(nshards as usize) {
        let mut rng = Rng::derive(seed, 4, 9_000_000 + i);
        let input: Vec<u8> = match i % 5 {
            0 | 1 => {
                // mutated type-31 stream
                let subset = rng.below(1024) as u16;
                let mut spec = enc::gen_msg31(&mut rng, subset, false, false);
                for b in spec.blocks.iter_mut() {
                    if let enc::Block::Mom(m) = b {
                        m.gates %= 12;
                        m.data.truncate(m.gates as usize * (m.word as usize / 8));
                    }
                }
                let body = spec.encode(&mut rng);
                let h = enc::MsgHeader::realistic(&mut rng, 31);
                let s = enc::msg31_bytes(&h, &body);
                let s = mutate(&mut rng, s);
                if i % 2 == 0 {
                    let cut = rng.usize_below(s.len() + 1);
                    s[..cut].to_vec()
                } else {
                    s
                }
            }
            2 => {
                let n = rng.urange(0, 5);
                let v = enc::gen_vcp(&mut rng, n).encode();
                mutate(&mut rng, v)
            }
            3 => {
                let mut b = vec![0u8; 6];
                b[4..6].copy_from_slice(&(rng.below(3) as u16).to_be_bytes());
                for _ in 0..rng.urange(0, 400) {
                    let z = rng.below(3) as u16;
                    b.extend_from_slice(&z.to_be_bytes());
                    b.extend_from_slice(&rng.bytes(z as usize * 4));
                }
                mutate(&mut rng, b)
            }
            _ => {
                let n = rng.usize_below(200);
                rng.bytes(n)
            }
        };
        let r = catch_unwind(AssertUnwindSafe(|| {
            let mut radials = Vec::new();
            if let Ok(v) = decode_messages(&mut Cursor::new(&input[..])) {
                for m in v {
                    if let nexrad_decode::messages::MessageContents::DigitalRadarData(r) = m.into_contents() {
                        radials.push(*r);
                    }
                }
            }
            let _ = decode_message_header(&mut &input[..]);
            if let Ok(m) = decode_digital_radar_data(&mut Cursor::new(&input[..])) {
                radials.push(m);
            }
            if input.len() > 28 {
                if let Ok(m) = decode_digital_radar_data(&mut Cursor::new(&input[28..])) {
                    radials.push(m);
                }
            }
            let _ = decode_rda_status_message(&mut &input[..]);
            let _ = decode_volume_coverage_pattern(&mut &input[..]);
            let _ = decode_clutter_filter_map(&mut &input[..]);
            for m in radials {
                let _ = m.radial();
                let _ = m.into_radial();
            }
        }));
        if r.is_err() {
            fail("c04", format!("case {}: panic on input {:02x?}", i, &input[..input.len().min(80)]));
        }
        n += 1;
    }
    n
}

fn lane_c07(shard: u64, nshards: u64, seed: u64, cases: u64) -> u64 {
    use nexrad_decode::messages::digital_radar_data::ScaledMomentValue;
    use nexrad_model::data::MomentValue;
    let mut n = 0;
    let pairs: [(f32, f32); 8] = [(2.0, 66.0), (0.0, 0.0), (-2.0, 1.5), (1.0e-40, 0.0), (1.0e30, 1.0e30), (300.0, -60.5), (0.5, -32768.0), (2.8361, 2.0)];
    for i in (shard..cases).step_by(nshards as usize) {
        let mut rng = Rng::derive(seed, 7, 9_000_000 + i);
        let (scale, offset) = pairs[(i % 8) as usize];
        let word: u8 = if i % 3 == 0 { 16 } else { 8 };
        let raws: Vec<u16> = if word == 8 { (0..=255).collect() } else { (0..128u16).map(|k| k.wrapping_mul(517).wrapping_add(i as u16)).chain([0, 1, 2, 255, 256, 65_535]).collect() };
        let mut d = enc::Distinct::new(&mut rng);
        let hdr = enc::gen_data_header(&mut rng, &mut d);
        let mut m = enc::gen_moment(&mut rng, &mut d, *b"REF", raws.len() as u16, word);
        m.scale = scale;
        m.offset = offset;
        m.data = raws.iter().flat_map(|r| if word == 16 { r.to_be_bytes().to_vec() } else { vec![*r as u8] }).collect();
        let spec = enc::Msg31::contiguous(hdr, vec![enc::Block::Mom(m)]);
        let body = spec.encode(&mut rng);
        let msg = match decode_digital_radar_data(&mut Cursor::new(&body[..])) {
            Ok(m) => m,
            Err(e) => fail("c07", format!("case {}: decode error {:?}", i, e)),
        };
        let a = msg.radial();
        let b = msg.clone().into_radial();
        let (Ok(a), Ok(b)) = (a, b) else { fail("c07", format!("case {}: radial conversion failed", i)) };
        if a != b {
            fail("c07", format!("case {}: radial() != into_radial()", i));
        }
        let dv = msg.reflectivity_data_block.as_ref().map(|b| b.decoded_values()).unwrap_or_default();
        let mv = a.reflectivity().map(|m| m.values()).unwrap_or_default();
        if dv.len() != raws.len() || mv.len() != raws.len() {
            fail("c07", format!("case {}: {} gates, {} / {} values", i, raws.len(), dv.len(), mv.len()));
        }
        for (g, raw) in raws.iter().enumerate() {
            let want: Option<u32> = if scale == 0.0 {
                Some((*raw as f32).to_bits())
            } else if *raw <= 1 {
                None
            } else {
                Some(((*raw as f32 - offset) / scale).to_bits())
            };
            let got_d = match dv[g] {
                ScaledMomentValue::Value(v) => Some(v.to_bits()),
                _ => None,
            };
            let got_m = match mv[g] {
                MomentValue::Value(v) => Some(v.to_bits()),
                _ => None,
            };
            if got_d != got_m || (got_d != want && !(scale == 0.0 && *raw <= 1)) {
                fail("c07", format!("case {} gate {} raw {}: want {:?}, decode {:?}, model {:?}", i, g, raw, want, got_d, got_m));
            }
        }
        n += 1;
    }
    n
}

fn lane_c10(shard: u64, nshards: u64, seed: u64, cases: u64) -> u64 {
    use uom::si::information::byte;
    let mut n = 0;
    for i in (shard..cases).step_by(nshards as usize) {
        let mut rng = Rng::derive(seed, 10, 9_000_000 + i);
        let mut h = enc::MsgHeader::realistic(&mut rng, (i % 256) as u8);
        h.mtype = (i % 256) as u8;
        h.size = match i % 7 {
            0 => 0xFFFF,
            1 => 0x8000,
            2 => 0x7FFF,
            3 => 0xFFFE,
            _ => rng.u16(),
        };
        h.seg_count = rng.u16();
        h.seg_num = rng.u16();
        let b = h.encode();
        let d = match decode_message_header(&mut &b[..]) {
            Ok(d) => d,
            Err(e) => fail("c10", format!("case {}: {:?}", i, e)),
        };
        let want: u32 = if h.size != 0xFFFF { 2 * h.size as u32 } else { ((h.seg_count as u32) << 16) | h.seg_num as u32 };
        let r = catch_unwind(AssertUnwindSafe(|| (d.segmented(), d.message_size_bytes(), d.message_size().get::<byte>(), d.segment_size().map(|s| s.get::<byte>()), d.segment_count(), d.segment_number(), d.message_type(), d.date_time())));
        match r {
            Err(_) => fail("c10", format!("case {}: accessor panicked for size {:#x}", i, h.size)),
            Ok((seg, bytes, uom_bytes, seg_size, _c, _n, _t, _dt)) => {
                if seg != (h.size != 0xFFFF) || bytes != want || uom_bytes != want as f64 || seg_size != if seg { Some(2.0 * h.size as f64) } else { None } {
                    fail("c10", format!("case {}: size {:#x} count {} number {}: segmented {} bytes {} uom {} segment_size {:?}", i, h.size, h.seg_count, h.seg_num, seg, bytes, uom_bytes, seg_size));
                }
            }
        }
        n += 1;
    }
    n
}

fn main() {
    let a: Vec<String> = std::env::args().collect();
    if a.len() < 6 {
        eprintln!("usage: nxmiri <c02|c04|c07|c10> <shard> <nshards> <seed> <cases>");
        std::process::exit(2);
    }
    let (shard, nshards, seed, cases): (u64, u64, u64, u64) = (
        a[2].parse().unwrap_or(0),
        a[3].parse().unwrap_or(1).max(1),
        a[4].parse().unwrap_or(1),
        a[5].parse().unwrap_or(16),
    );
    let n = match a[1].as_str() {
        "c02" => lane_c02(shard, nshards, seed, cases),
        "c04" => lane_c04(shard, nshards, seed, cases),
        "c07" => lane_c07(shard, nshards, seed, cases),
        "c10" => lane_c10(shard, nshards, seed, cases),
        _ => {
            eprintln!("unknown lane");
            std::process::exit(2);
        }
    };
    println!("MIRI-LANE-OK lane={} shard={}/{} cases={}", a[1], shard, nshards, n);
}
