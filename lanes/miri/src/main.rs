//! Miri lane: re-runs reduced C02 / C04 / C07 / C10 workloads on the pure-Rust decode and model
//! paths under the undefined-behaviour interpreter.  A Miri diagnostic aborts the process, which the
//! lane runner reports as a violation of the property whose workload produced it; oracle
//! mismatches are also reported (exit 3) so that a value slip seen only under Miri is not lost.
//!
//! usage: nxmiri <c02|c04|c07|c10> <shard> <nshards> <seed> <cases>
#![allow(dead_code)]

#[path = "../../../harness/src/rng.rs"]
mod rng;
#[path = "../../../harness/src/enc.rs"]
mod enc;
#[path = "../../../harness/src/cal.rs"]
mod cal;
#[path = "../../../harness/src/props/cmp31.rs"]
mod cmp31;

use nexrad_decode::messages::digital_radar_data::decode_digital_radar_data;
use nexrad_decode::messages::{decode_message_header, decode_messages};
use rng::Rng;
use std::io::Cursor;
use std::panic::{catch_unwind, AssertUnwindSafe};

fn fail(lane: &str, what: String) -> ! {
    println!("MIRI-LANE-MISMATCH lane={} {}", lane, what);
    std::process::exit(3);
}

fn lane_c02(shard: u64, nshards: u64, seed: u64, cases: u64) -> u64 {
    let mut n = 0;
    // subsets enumerated across shards: subset = case index mod 1024
    for i in (shard..cases).step_by(nshards as usize) {
        let mut rng = Rng::derive(seed, 2, 9_000_000 + i);
        let subset = (i % 1024) as u16;
        let mut spec = enc::gen_msg31(&mut rng, subset, i % 2 == 1, false);
        for b in spec.blocks.iter_mut() {
            if let enc::Block::Mom(m) = b {
                m.gates %= 24; // interpreter speed
                m.data.truncate(m.gates as usize * (m.word as usize / 8));
            }
        }
        let body = spec.encode(&mut rng);
        match decode_digital_radar_data(&mut Cursor::new(&body[..])) {
            Err(e) => fail("c02", format!("case {} subset {:#x}: decode error {:?}", i, subset, e)),
            Ok(m) => {
                let d = cmp31::compare(&spec, &m);
                if let Some(x) = d.first() {
                    fail("c02", format!("case {} subset {:#x}: field {} {}", i, subset, x.field, x.detail));
                }
            }
        }
        n += 1;
    }
    n
}

fn mutate(rng: &mut Rng, mut b: Vec<u8>) -> Vec<u8> {
    if b.is_empty() {
        return b;
    }
    for _ in 0..rng.urange(1, 6) {
        let pos = if rng.chance(3, 4) { rng.usize_below(b.len().min(96)) } else { rng.usize_below(b.len()) };
        match rng.below(4) {
            0 => b[pos] ^= 1 << rng.below(8),
            1 => b[pos] = *rng.pick(&[0u8, 0xFF, 0x7F, 0x80, 1]),
            2 => {
                let p = pos & !1;
                if p + 1 < b.len() {
                    let v = *rng.pick(&[0u16, 1, 52, 255, 360, 0x7FFF, 0x8000, 0xFFFF]);
                    b[p..p + 2].copy_from_slice(&v.to_be_bytes());
                }
            }
            _ => {
                let p = pos & !3;
                if p + 3 < b.len() {
                    let v = *rng.pick(&[0u32, 28, 32, 68, 0x7FFF_FFFF, 0xFFFF_FFFF]);
                    b[p..p + 4].copy_from_slice(&v.to_be_bytes());
                }
            }
        }
    }
    b
}

fn lane_c04(shard: u64, nshards: u64, seed: u64, cases: u64) -> u64 {
    use nexrad_decode::messages::clutter_filter_map::decode_clutter_filter_map;
    use nexrad_decode::messages::rda_status_data::decode_rda_status_message;
    use nexrad_decode::messages::volume_coverage_pattern::decode_volume_coverage_pattern;
    let mut n = 0;
    for i in (shard..cases).step_by(nshards as usize) {
        let mut rng = Rng::derive(seed, 4, 9_000_000 + i);
        let input: Vec<u8> = match i % 5 {
            0 | 1 => {
                // mutated type-31 stream
                let subset = rng.below(1024) as u16;
                let mut spec = enc::gen_msg31(&mut rng, subset, false, false);
                for b in spec.blocks.iter_mut() {
                    if let enc::Block::Mom(m) = b {
                        m.gates %= 12;
                        m.data.truncate(m.gates as usize * (m.word as usize / 8));
                    }
                }
                let body = spec.encode(&mut rng);
                let h = enc::MsgHeader::realistic(&mut rng, 31);
                let s = enc::msg31_bytes(&h, &body);
                let s = mutate(&mut rng, s);
                if i % 2 == 0 {
                    let cut = rng.usize_below(s.len() + 1);
                    s[..cut].to_vec()
                } else {
                    s
                }
            }
            2 => {
                let n = rng.urange(0, 5);
                let v = enc::gen_vcp(&mut rng, n).encode();
                mutate(&mut rng, v)
            }
            3 => {
                let mut b = vec![0u8; 6];
                b[4..6].copy_from_slice(&(rng.below(3) as u16).to_be_bytes());
                for _ in 0..rng.urange(0, 400) {
                    let z = rng.below(3) as u16;
                    b.extend_from_slice(&z.to_be_bytes());
                    b.extend_from_slice(&rng.bytes(z as usize * 4));
                }
                mutate(&mut rng, b)
            }
            _ => {
                let n = rng.usize_below(200);
                rng.bytes(n)
            }
        };
        let r = catch_unwind(AssertUnwindSafe(|| {
            let mut radials = Vec::new();
            if let Ok(v) = decode_messages(&mut Cursor::new(&input[..])) {
                for m in v {
                    if let nexrad_decode::messages::MessageContents::DigitalRadarData(r) = m.into_contents() {
                        radials.push(*r);
                    }
                }
            }
            let _ = decode_message_header(&mut &input[..]);
            if let Ok(m) = decode_digital_radar_data(&mut Cursor::new(&input[..])) {
                radials.push(m);
            }
            if input.len() > 28 {
                if let Ok(m) = decode_digital_radar_data(&mut Cursor::new(&input[28..])) {
                    radials.push(m);
                }
            }
            let _ = decode_rda_status_message(&mut &input[..]);
            let _ = decode_volume_coverage_pattern(&mut &input[..]);
            let _ = decode_clutter_filter_map(&mut &input[..]);
            for m in radials {
                let _ = m.radial();
                let _ = m.into_radial();
            }
        }));
        if r.is_err() {
            fail("c04", format!("case {}: panic on input {:02x?}", i, &input[..input.len().min(80)]));
        }
        n += 1;
    }
    n
}

fn lane_c07(shard: u64, nshards: u64, seed: u64, cases: u64) -> u64 {
    use nexrad_decode::messages::digital_radar_data::ScaledMomentValue;
    use nexrad_model::data::MomentValue;
    let mut n = 0;
    let pairs: [(f32, f32); 8] = [(2.0, 66.0), (0.0, 0.0), (-2.0, 1.5), (1.0e-40, 0.0), (1.0e30, 1.0e30), (300.0, -60.5), (0.5, -32768.0), (2.8361, 2.0)];
    for i in (shard..cases).step_by(nshards as usize) {
        let mut rng = Rng::derive(seed, 7, 9_000_000 + i);
        let (scale, offset) = pairs[(i % 8) as usize];
        let word: u8 = if i % 3 == 0 { 16 } else { 8 };
        let mut raws: Vec<u16> = if word == 8 { (0..=255).collect() } else { (0..128u16).map(|k| k.wrapping_mul(517).wrapping_add(i as u16)).chain([0, 1, 2, 255, 256, 65_535]).collect() };
        if i % 8 >= 6 {
            // moments of very few gates (0..=5)
            raws.truncate(((i / 8) % 6) as usize);
        }
        let mut d = enc::Distinct::new(&mut rng);
        let hdr = enc::gen_data_header(&mut rng, &mut d);
        let mut m = enc::gen_moment(&mut rng, &mut d, *b"REF", raws.len() as u16, word);
        m.scale = scale;
        m.offset = offset;
        m.data = raws.iter().flat_map(|r| if word == 16 { r.to_be_bytes().to_vec() } else { vec![*r as u8] }).collect();
        let spec = enc::Msg31::contiguous(hdr, vec![enc::Block::Mom(m)]);
        let body = spec.encode(&mut rng);
        let msg = match decode_digital_radar_data(&mut Cursor::new(&body[..])) {
            Ok(m) => m,
            Err(e) => fail("c07", format!("case {}: decode error {:?}", i, e)),
        };
        let a = msg.radial();
        let b = msg.clone().into_radial();
        let (Ok(a), Ok(b)) = (a, b) else { fail("c07", format!("case {}: radial conversion failed", i)) };
        if a != b {
            fail("c07", format!("case {}: radial() != into_radial()", i));
        }
        let dv = msg.reflectivity_data_block.as_ref().map(|b| b.decoded_values()).unwrap_or_default();
        let mv = a.reflectivity().map(|m| m.values()).unwrap_or_default();
        if dv.len() != raws.len() || mv.len() != raws.len() {
            fail("c07", format!("case {}: {} gates, {} / {} values", i, raws.len(), dv.len(), mv.len()));
        }
        for (g, raw) in raws.iter().enumerate() {
            let want: Option<u32> = if scale == 0.0 {
                Some((*raw as f32).to_bits())
            } else if *raw <= 1 {
                None
            } else {
                Some(((*raw as f32 - offset) / scale).to_bits())
            };
            let got_d = match dv[g] {
                ScaledMomentValue::Value(v) => Some(v.to_bits()),
                _ => None,
            };
            let got_m = match mv[g] {
                MomentValue::Value(v) => Some(v.to_bits()),
                _ => None,
            };
            if got_d != got_m || (got_d != want && !(scale == 0.0 && *raw <= 1)) {
                fail("c07", format!("case {} gate {} raw {}: want {:?}, decode {:?}, model {:?}", i, g, raw, want, got_d, got_m));
            }
        }
        n += 1;
    }
    n
}

fn lane_c10(shard: u64, nshards: u64, seed: u64, cases: u64) -> u64 {
    use uom::si::information::byte;
    let mut n = 0;
    for i in (shard..cases).step_by(nshards as usize) {
        let mut rng = Rng::derive(seed, 10, 9_000_000 + i);
        let mut h = enc::MsgHeader::realistic(&mut rng, (i % 256) as u8);
        h.mtype = (i % 256) as u8;
        h.size = match i % 7 {
            0 => 0xFFFF,
            1 => 0x8000,
            2 => 0x7FFF,
            3 => 0xFFFE,
            _ => rng.u16(),
        };
        h.seg_count = rng.u16();
        h.seg_num = rng.u16();
        let b = h.encode();
        let d = match decode_message_header(&mut &b[..]) {
            Ok(d) => d,
            Err(e) => fail("c10", format!("case {}: {:?}", i, e)),
        };
        let want: u32 = if h.size != 0xFFFF { 2 * h.size as u32 } else { ((h.seg_count as u32) << 16) | h.seg_num as u32 };
        let r = catch_unwind(AssertUnwindSafe(|| (d.segmented(), d.message_size_bytes(), d.message_size().get::<byte>(), d.segment_size().map(|s| s.get::<byte>()), d.segment_count(), d.segment_number(), d.message_type(), d.date_time())));
        match r {
            Err(_) => fail("c10", format!("case {}: accessor panicked for size {:#x}", i, h.size)),
            Ok((seg, bytes, uom_bytes, seg_size, _c, _n, _t, _dt)) => {
                if seg != (h.size != 0xFFFF) || bytes != want || uom_bytes != want as f64 || seg_size != if seg { Some(2.0 * h.size as f64) } else { None } {
                    fail("c10", format!("case {}: size {:#x} count {} number {}: segmented {} bytes {} uom {} segment_size {:?}", i, h.size, h.seg_count, h.seg_num, seg, bytes, uom_bytes, seg_size));
                }
            }
        }
        n += 1;
    }
    n
}

/// One lane for the properties without a lane of their own (C03, C08, C09, C11, C12, C13, C14): valid
/// and edge-valued inputs from the same encoders through the decoders, every accessor family, the
/// Debug renderings, the summariser and the model's grouping / merging.  The interpreter is the
/// oracle here (undefined behaviour, invalid enum values, uninitialised reads, out-of-bounds
/// accesses in code a change may have made `unsafe`); a handful of values are compared as well.
fn lane_rest(shard: u64, nshards: u64, seed: u64, cases: u64) -> u64 {
    use nexrad_decode::messages::clutter_filter_map::decode_clutter_filter_map;
    use nexrad_decode::messages::rda_status_data::decode_rda_status_message;
    use nexrad_decode::messages::volume_coverage_pattern::decode_volume_coverage_pattern;
    use nexrad_model::data::{Radial, RadialStatus, Sweep};
    let mut n = 0;
    for i in (shard..cases).step_by(nshards as usize) {
        let mut rng = Rng::derive(seed, 33, 9_000_000 + i);
        let r = catch_unwind(AssertUnwindSafe(|| {
            match i % 6 {
                0 => {
                    // C11: a VCP with 0..6 cuts whose angle / rate / threshold halfwords sit at the edges
                    let ncuts = (i / 6 % 7) as usize;
                    let mut v = enc::gen_vcp(&mut rng, ncuts);
                    let edges = [0u16, 1, 7, 8, 0x7FF8, 0x8000, 0xFFF7, 0xFFF8, 0xFFFF];
                    for (k, c) in v.cuts.iter_mut().enumerate() {
                        let e = edges[(i as usize / 6 + k) % edges.len()];
                        c.angle = e; c.edge1 = e.rotate_left(1); c.ebc = e.rotate_left(2);
                        c.az_rate = e.rotate_left(3);
                        c.waveform = ((i as usize / 6 + k) as u8).wrapping_sub(1); // 0 (undocumented), 1..=5, beyond
                        c.channel = (k as u8).wrapping_mul(37);
                    }
                    let body = v.encode();
                    match decode_volume_coverage_pattern(&mut Cursor::new(&body[..])) {
                        Err(e) => fail("rest", format!("case {}: VCP refused: {:?}", i, e)),
                        Ok(m) => {
                            if m.elevations.len() != ncuts {
                                fail("rest", format!("case {}: {} cuts encoded, {} decoded", i, ncuts, m.elevations.len()));
                            }
                            for c in &m.elevations {
                                let _ = (c.elevation_angle_degrees(), c.azimuth_rate_degrees_per_second(), c.sector_1_edge_angle_degrees(), c.sector_2_edge_angle_degrees(), c.sector_3_edge_angle_degrees(), c.ebc_angle_degrees());
                                let _ = (c.reflectivity_threshold(), c.velocity_threshold(), c.spectrum_width_threshold(), c.differential_reflectivity_threshold(), c.differential_phase_threshold(), c.correlation_coefficient_threshold());
                                let _ = format!("{:?} {:?} {:?}", c.channel_configuration(), c.waveform_type(), c);
                                let _ = (c.super_resolution_control_half_degree_azimuth(), c.supplemental_data_sails_cut(), c.supplemental_data_sails_sequence_number());
                            }
                            let _ = format!("{:?} {:?} {:?}", m.header.pattern_type(), m.header.pulse_width(), m.header);
                            let _ = m.header.doppler_velocity_resolution_meters_per_second();
                        }
                    }
                }
                1 => {
                    // C12: a status message, in-domain or arbitrary, alarm codes at and beyond the table's end
                    let mut h = enc::gen_rda_status_in_domain(&mut rng);
                    if i % 12 == 1 {
                        for w in h.iter_mut() {
                            *w = rng.u16();
                        }
                    }
                    for (k, code) in [0u16, 1, 800, 801, 65_535, 14].iter().enumerate() {
                        if (i / 6 + k as u64) % 3 == 0 {
                            h[26 + k] = *code;
                        }
                    }
                    let b = enc::encode_halfwords(&h);
                    match decode_rda_status_message(&mut Cursor::new(&b[..])) {
                        Err(e) => fail("rest", format!("case {}: status message refused: {:?}", i, e)),
                        Ok(m) => {
                            let codes: Vec<u16> = m.alarm_messages().iter().map(|a| a.code()).collect();
                            let want: Vec<u16> = h[26..40].iter().copied().filter(|c| *c != 0 && *c <= 800).collect();
                            if codes != want {
                                fail("rest", format!("case {}: alarm codes {:?} give {:?}", i, &h[26..40], codes));
                            }
                            if i % 12 != 1 {
                                let _ = format!("{:?}", m);
                            }
                            let _ = (m.rda_build_number(), m.rda_scan_and_data_flags(), m.data_transmission_enabled(), m.rda_alarm_summary(), m.volume_coverage_pattern());
                            let _ = (m.bypass_map_generation_date_time(), m.clutter_filter_map_generation_date_time());
                        }
                    }
                }
                2 => {
                    // C13: one or two segments, zone counts 0..3 and, on one azimuth, 20..26
                    let nseg = 1 + (i / 6 % 2) as usize;
                    let big = 20 + (i / 12 % 7) as usize;
                    let segments: Vec<Vec<Vec<(u16, u16)>>> = (0..nseg)
                        .map(|s| (0..360).map(|az| (0..if s == 0 && az == (i % 360) as usize { big } else { rng.usize_below(4) }).map(|_| (rng.below(3) as u16, rng.range(0, 511) as u16)).collect()).collect())
                        .collect();
                    let map = enc::ClutterMap { date: 19_000 + (i % 100) as u16, minutes: (i % 1440) as u16, segments };
                    let b = map.encode();
                    match decode_clutter_filter_map(&mut Cursor::new(&b[..])) {
                        Err(e) => fail("rest", format!("case {}: clutter map refused: {:?}", i, e)),
                        Ok(m) => {
                            let zones: usize = m.elevation_segments.iter().flat_map(|s| s.azimuth_segments.iter()).map(|a| a.range_zones.len()).sum();
                            let want: usize = map.segments.iter().flatten().map(|a| a.len()).sum();
                            if zones != want || m.elevation_segments.len() != nseg {
                                fail("rest", format!("case {}: {} zones encoded, {} decoded", i, want, zones));
                            }
                            let _ = m.header.date_time();
                            let _ = format!("{:?}", m.elevation_segments[0].azimuth_segments[(i % 360) as usize]);
                        }
                    }
                    let cut = rng.usize_below(b.len());
                    let _ = decode_clutter_filter_map(&mut Cursor::new(&b[..cut]));
                }
                3 => {
                    // C03 / C14 / C08: a short stream (radials with few gates, fixed frames of any type
                    // code, dates and times at the ends of their ranges) decoded and summarised
                    let mut stream = Vec::new();
                    let k = 1 + (i / 6 % 4) as usize;
                    for j in 0..k {
                        if (i / 6 + j as u64) % 3 != 1 {
                            // (neighbouring frames share a type code half of the time: runs of status / VCP messages)
                            let code = [2u8, 5, 15, 18, 0, 34, 255, 3][(i as usize / 6 + j / 2) % 8];
                            let mut h = enc::MsgHeader::realistic(&mut rng, code);
                            h.date = [1u16, 2, 65_535, 19_000][(i as usize + j) % 4];
                            h.time = [0u32, 1, 86_399_999, 43_200_000][(i as usize / 2 + j) % 4];
                            let body: Vec<u8> = match code {
                                2 => enc::encode_halfwords(&enc::gen_rda_status_in_domain(&mut rng)),
                                5 => enc::gen_vcp(&mut rng, j).encode(),
                                _ => rng.bytes(64),
                            };
                            stream.extend_from_slice(&enc::frame(&h, &body, 0));
                        } else {
                            let subset = rng.below(1024) as u16;
                            let mut spec = enc::gen_msg31(&mut rng, subset, false, false);
                            for b in spec.blocks.iter_mut() {
                                if let enc::Block::Mom(m) = b {
                                    m.gates %= 6;
                                    m.data.truncate(m.gates as usize * (m.word as usize / 8));
                                }
                                // the summariser is specified for coded fields within their documented
                                // domains (C14): the volume block names a documented pattern
                                if let enc::Block::Vol(v) = b {
                                    v.vcp = [12u16, 31, 35, 112, 212, 215][(i as usize + j) % 6];
                                }
                            }
                            spec.hdr.date = [1u16, 65_535, 19_000][(i as usize + j) % 3];
                            spec.hdr.status = (i as usize / 6 + j) as u8 % 6;
                            let body = spec.encode(&mut rng);
                            let h = enc::MsgHeader::realistic(&mut rng, 31);
                            stream.extend_from_slice(&enc::msg31_bytes(&h, &body));
                        }
                    }
                    match decode_messages(&mut Cursor::new(&stream[..])) {
                        Err(e) => fail("rest", format!("case {}: stream of {} messages refused: {:?}", i, k, e)),
                        Ok(v) => {
                            if v.len() != k {
                                fail("rest", format!("case {}: {} messages in, {} out", i, k, v.len()));
                            }
                            for m in &v {
                                let _ = (m.header().date_time(), m.header().message_type(), m.header().message_size_bytes());
                            }
                            let s = nexrad_decode::summarize::messages(&v);
                            let _ = format!("{:?}", s);
                            for m in v {
                                if let nexrad_decode::messages::MessageContents::DigitalRadarData(r) = m.into_contents() {
                                    let _ = r.header.date_time();
                                    let _ = format!("{:?}", r.header);
                                    if let Ok(rad) = r.radial() {
                                        for mo in [rad.reflectivity(), rad.velocity(), rad.spectrum_width()].into_iter().flatten() {
                                            let _ = mo.values();
                                        }
                                    }
                                    let _ = r.into_radial();
                                }
                            }
                        }
                    }
                    let cut = rng.usize_below(stream.len());
                    let _ = decode_messages(&mut Cursor::new(&stream[..cut]));
                }
                _ => {
                    // C09: grouping and merging of short lists (runs of one, ties, equal radials)
                    let mk = |id: i64, az: u16, e: u8| Radial::new(id, az, az as f32 * 0.5, 0.5, RadialStatus::IntermediateRadialData, e, e as f32 * 0.1, None, None, None, None, None, None, None);
                    let len = (i / 6 % 9) as usize;
                    let elevs: Vec<u8> = (0..len).map(|_| 1 + rng.below(3) as u8).collect();
                    let radials: Vec<Radial> = elevs.iter().enumerate().map(|(k, e)| mk(1000 + k as i64, rng.below(4) as u16, *e)).collect();
                    let sweeps = Sweep::from_radials(radials.clone());
                    let total: usize = sweeps.iter().map(|s| s.radials().len()).sum();
                    let mut runs = 0;
                    for k in 0..len {
                        if k == 0 || elevs[k] != elevs[k - 1] {
                            runs += 1;
                        }
                    }
                    if total != len || sweeps.len() != runs {
                        fail("rest", format!("case {}: elevations {:?}: {} sweeps with {} radials", i, elevs, sweeps.len(), total));
                    }
                    let a = Sweep::new(3, (0..len).map(|k| mk(k as i64, rng.below(3) as u16, 3)).collect());
                    let b = Sweep::new(3, (0..(i / 54 % 5) as usize).map(|k| mk(100 + k as i64, rng.below(3) as u16, 3)).collect());
                    let want = a.radials().len() + b.radials().len();
                    match a.merge(b) {
                        Ok(m) => {
                            let az: Vec<u16> = m.radials().iter().map(|r| r.azimuth_number()).collect();
                            if az.len() != want || az.windows(2).any(|w| w[0] > w[1]) {
                                fail("rest", format!("case {}: merged azimuth numbers {:?}", i, az));
                            }
                        }
                        Err(_) => fail("rest", format!("case {}: merge of equal elevations refused", i)),
                    }
                }
            }
        }));
        if r.is_err() {
            fail("rest", format!("case {}: panic (kind {})", i, i % 6));
        }
        n += 1;
    }
    n
}

fn main() {
    let a: Vec<String> = std::env::args().collect();
    if a.len() < 6 {
        eprintln!("usage: nxmiri <c02|c04|c07|c10> <shard> <nshards> <seed> <cases>");
        std::process::exit(2);
    }
    let (shard, nshards, seed, cases): (u64, u64, u64, u64) = (
        a[2].parse().unwrap_or(0),
        a[3].parse().unwrap_or(1).max(1),
        a[4].parse().unwrap_or(1),
        a[5].parse().unwrap_or(16),
    );
    let n = match a[1].as_str() {
        "c02" => lane_c02(shard, nshards, seed, cases),
        "c04" => lane_c04(shard, nshards, seed, cases),
        "c07" => lane_c07(shard, nshards, seed, cases),
        "c10" => lane_c10(shard, nshards, seed, cases),
        "rest" => lane_rest(shard, nshards, seed, cases),
        _ => {
            eprintln!("unknown lane");
            std::process::exit(2);
        }
    };
    println!("MIRI-LANE-OK lane={} shard={}/{} cases={}", a[1], shard, nshards, n);
}
