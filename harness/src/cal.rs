//! Independent integer calendar (no chrono): civil date from days since 1970-01-01 and back.
//! Algorithm: Howard Hinnant's days_from_civil / civil_from_days, written out here.

/// Days since 1970-01-01 -> (year, month 1..=12, day 1..=31).
pub fn civil_from_days(z: i64) -> (i64, u32, u32) {
    let z = z + 719_468;
    let era = if z >= 0 { z } else { z - 146_096 } / 146_097;
    let doe = (z - era * 146_097) as u64; // [0, 146096]
    let yoe = (doe - doe / 1460 + doe / 36_524 - doe / 146_096) / 365; // [0, 399]
    let y = yoe as i64 + era * 400;
    let doy = doe - (365 * yoe + yoe / 4 - yoe / 100); // [0, 365]
    let mp = (5 * doy + 2) / 153; // [0, 11]
    let d = (doy - (153 * mp + 2) / 5 + 1) as u32; // [1, 31]
    let m = if mp < 10 { mp + 3 } else { mp - 9 } as u32; // [1, 12]
    (if m <= 2 { y + 1 } else { y }, m, d)
}

/// (year, month, day) -> days since 1970-01-01.
pub fn days_from_civil(y: i64, m: u32, d: u32) -> i64 {
    let y = if m <= 2 { y - 1 } else { y };
    let era = if y >= 0 { y } else { y - 399 } / 400;
    let yoe = (y - era * 400) as u64;
    let mp = if m > 2 { m - 3 } else { m + 9 } as u64;
    let doy = (153 * mp + 2) / 5 + d as u64 - 1;
    let doe = yoe * 365 + yoe / 4 - yoe / 100 + doy;
    era * 146_097 + doe as i64 - 719_468
}

/// ICD "modified Julian date" d (1 = 1970-01-01) and milliseconds past midnight -> epoch ms.
pub fn icd_epoch_ms(d: u16, ms: u64) -> i64 {
    (d as i64 - 1) * 86_400_000 + ms as i64
}

#[derive(Debug, Clone, Copy, PartialEq, Eq)]
pub struct Civil {
    pub year: i64,
    pub month: u32,
    pub day: u32,
    pub hour: u32,
    pub minute: u32,
    pub second: u32,
    pub milli: u32,
}

pub fn civil_from_epoch_ms(ms: i64) -> Civil {
    let days = ms.div_euclid(86_400_000);
    let rem = ms.rem_euclid(86_400_000) as u32;
    let (year, month, day) = civil_from_days(days);
    Civil {
        year,
        month,
        day,
        hour: rem / 3_600_000,
        minute: rem / 60_000 % 60,
        second: rem / 1000 % 60,
        milli: rem % 1000,
    }
}

pub fn is_leap(y: i64) -> bool {
    (y % 4 == 0 && y % 100 != 0) || y % 400 == 0
}

pub fn days_in_month(y: i64, m: u32) -> u32 {
    match m {
        1 | 3 | 5 | 7 | 8 | 10 | 12 => 31,
        4 | 6 | 9 | 11 => 30,
        _ => {
            if is_leap(y) {
                29
            } else {
                28
            }
        }
    }
}

/// Self-check of the calendar against first principles (walks every day 1970..2150 by counting).
pub fn self_check() -> Result<(), String> {
    let (mut y, mut m, mut d) = (1970i64, 1u32, 1u32);
    for z in 0..66_000i64 {
        if civil_from_days(z) != (y, m, d) {
            return Err(format!("civil_from_days({}) != {}-{}-{}", z, y, m, d));
        }
        if days_from_civil(y, m, d) != z {
            return Err(format!("days_from_civil({}-{}-{}) != {}", y, m, d, z));
        }
        d += 1;
        if d > days_in_month(y, m) {
            d = 1;
            m += 1;
            if m > 12 {
                m = 1;
                y += 1;
            }
        }
    }
    Ok(())
}
