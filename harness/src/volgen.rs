//! Archive II volume generator: message stream (radials + metadata frames) cut at message
//! boundaries into bzip2-compressed LDM records behind a 24-byte volume header, together with the
//! generator's own record of what a faithful reader must recover.

use crate::cal;
use crate::enc::{self, Block, Moment, Msg31, MsgHeader, VolHeader};
use crate::props::c03::{gen_fixed, Item};
use crate::rng::Rng;
use nexrad_model::data::{MomentData, Radial, RadialStatus};

#[derive(Clone)]
pub enum StreamItem {
    Radial { hdr: MsgHeader, msg: Msg31 },
    Meta(Item),
}

#[derive(Clone)]
pub struct VolumeSpec {
    pub header: VolHeader,
    pub items: Vec<StreamItem>,
    /// Item indices at which a new LDM record starts (always begins with 0).
    pub record_starts: Vec<usize>,
    pub negative_prefix: Vec<bool>,
    pub levels: Vec<u32>,
}

pub fn model_status(code: u8) -> RadialStatus {
    match code {
        0 => RadialStatus::ElevationStart,
        1 => RadialStatus::IntermediateRadialData,
        2 => RadialStatus::ElevationEnd,
        3 => RadialStatus::VolumeScanStart,
        4 => RadialStatus::VolumeScanEnd,
        _ => RadialStatus::ElevationStartVCPFinal,
    }
}

/// Everything a radial reports through its accessors, folded into one number: a comparison that
/// does not go through the library's own `PartialEq` (which a change might narrow) - header
/// fields by bit pattern, and for each of the seven moments its presence and every gate value.
pub fn radial_fingerprint(r: &Radial) -> u64 {
    use crate::rng::mix;
    use nexrad_model::data::MomentValue;
    let mut h = mix(r.collection_timestamp() as u64, r.azimuth_number() as u64);
    h = mix(h, r.azimuth_angle_degrees().to_bits() as u64);
    h = mix(h, r.azimuth_spacing_degrees().to_bits() as u64);
    h = mix(h, crate::rng::fnv_str(&format!("{:?}", r.radial_status())));
    h = mix(h, r.elevation_number() as u64);
    h = mix(h, r.elevation_angle_degrees().to_bits() as u64);
    let moments = [
        r.reflectivity(),
        r.velocity(),
        r.spectrum_width(),
        r.differential_reflectivity(),
        r.differential_phase(),
        r.correlation_coefficient(),
        r.specific_differential_phase(),
    ];
    for (k, m) in moments.iter().enumerate() {
        match m {
            None => h = mix(h, 0x4e4f_4e45 + k as u64),
            Some(md) => {
                let vals = md.values();
                h = mix(h, 0x534f_4d45 + k as u64 + ((vals.len() as u64) << 8));
                for v in vals {
                    h = mix(h, match v {
                        MomentValue::Value(x) => x.to_bits() as u64,
                        MomentValue::BelowThreshold => 1 << 40,
                        MomentValue::RangeFolded => 2 << 40,
                    });
                }
            }
        }
    }
    h
}

fn moment_of(m: &Msg31, slot: usize) -> Option<MomentData> {
    m.blocks.iter().find(|b| b.slot() == slot).and_then(|b| match b {
        Block::Mom(Moment {
            scale,
            offset,
            data,
            word,
            ..
        }) => Some(MomentData::from_fixed_point_words(
            *word,
            *scale,
            *offset,
            data.clone(),
        )),
        _ => None,
    })
}

/// What the model radial of this message must be, built with the model's public constructors
/// from the very bytes written (C07 owns the gate *values*; here moments are compared as the
/// model's own equality sees them).
pub fn expected_radial(m: &Msg31) -> Radial {
    Radial::new(
        cal::icd_epoch_ms(m.hdr.date, m.hdr.time as u64),
        m.hdr.az_num,
        m.hdr.az,
        m.hdr.spacing as f32 * 0.5,
        model_status(m.hdr.status),
        m.hdr.elev_num,
        m.hdr.elev,
        moment_of(m, 3),
        moment_of(m, 4),
        moment_of(m, 5),
        moment_of(m, 6),
        moment_of(m, 7),
        moment_of(m, 8),
        moment_of(m, 9),
    )
}

impl VolumeSpec {
    pub fn radials(&self) -> impl Iterator<Item = &Msg31> {
        self.items.iter().filter_map(|i| match i {
            StreamItem::Radial { msg, .. } => Some(msg),
            _ => None,
        })
    }

    pub fn expected_radials(&self) -> Vec<Radial> {
        self.radials().map(expected_radial).collect()
    }

    pub fn expected_vcp(&self) -> Option<u16> {
        self.radials().find_map(|m| {
            m.blocks.iter().find_map(|b| match b {
                Block::Vol(v) => Some(v.vcp),
                _ => None,
            })
        })
    }

    pub fn item_bytes(item: &StreamItem, filler: &mut Rng) -> Vec<u8> {
        match item {
            StreamItem::Radial { hdr, msg } => enc::msg31_bytes(hdr, &msg.encode(filler)),
            StreamItem::Meta(it) => it.bytes().to_vec(),
        }
    }

    /// Per-record decompressed payloads.
    pub fn payloads(&self) -> Vec<Vec<u8>> {
        let mut out = Vec::new();
        for (ri, &start) in self.record_starts.iter().enumerate() {
            let end = self
                .record_starts
                .get(ri + 1)
                .copied()
                .unwrap_or(self.items.len());
            let mut p = Vec::new();
            for it in &self.items[start..end] {
                // gap filler depends on the item alone, so a record's bytes do not depend on where
                // in the volume the record stands
                let mut filler = Rng::new(match it {
                    StreamItem::Radial { hdr, msg } => crate::rng::mix(hdr.seq as u64, crate::rng::mix(msg.hdr.time as u64, msg.hdr.az_num as u64)),
                    StreamItem::Meta(_) => 0,
                });
                p.extend_from_slice(&Self::item_bytes(it, &mut filler));
            }
            out.push(p);
        }
        out
    }

    /// A sibling of this volume: the same 24 header bytes, the same records (hence the same total
    /// length, byte for byte the same record bodies) in another order.  Anything that recognises a
    /// volume by its header and size takes the two for one.
    pub fn with_records_reordered(&self, rng: &mut Rng) -> Option<VolumeSpec> {
        let n = self.record_starts.len();
        if n < 2 {
            return None;
        }
        let mut order: Vec<usize> = (0..n).collect();
        let (i, j) = (rng.usize_below(n), rng.usize_below(n));
        if i == j {
            order.rotate_left(1);
        } else {
            order.swap(i, j);
        }
        let mut items = Vec::new();
        let mut record_starts = Vec::new();
        let mut negative_prefix = Vec::new();
        let mut levels = Vec::new();
        for &r in &order {
            let start = self.record_starts[r];
            let end = self.record_starts.get(r + 1).copied().unwrap_or(self.items.len());
            record_starts.push(items.len());
            items.extend(self.items[start..end].iter().cloned());
            negative_prefix.push(self.negative_prefix.get(r).copied().unwrap_or(false));
            levels.push(self.levels.get(r).copied().unwrap_or(1));
        }
        Some(VolumeSpec { header: self.header.clone(), items, record_starts, negative_prefix, levels })
    }

    pub fn build(&self) -> Vec<u8> {
        let mut f = self.header.encode().to_vec();
        for (ri, p) in self.payloads().iter().enumerate() {
            let body = enc::bzip2_compress(p, self.levels.get(ri).copied().unwrap_or(1));
            f.extend_from_slice(&enc::ldm_record(
                &body,
                self.negative_prefix.get(ri).copied().unwrap_or(false),
            ));
        }
        f
    }
}

#[derive(Clone, Copy, Debug)]
pub enum ElevPattern {
    Single,
    OneRadial,
    Increasing,
    Sails,
    RunsOfOne,
    Many255,
    /// 255 elevations of `radials_per_run` radials each: tens of thousands of radials in one volume
    ManyLong,
}

pub struct VolParams {
    pub pattern: ElevPattern,
    pub radials_per_run: (usize, usize),
    pub max_gates: u16,
    pub meta_density: u64, // one metadata frame per ~N radials (0 = none)
}

/// Elevation-number sequence for a pattern.
pub fn elevation_runs(rng: &mut Rng, p: &VolParams) -> Vec<(u8, usize)> {
    let len = |rng: &mut Rng| rng.urange(p.radials_per_run.0, p.radials_per_run.1);
    match p.pattern {
        ElevPattern::Single => vec![(rng.range(1, 25) as u8, len(rng))],
        ElevPattern::OneRadial => vec![(rng.u8(), 1)],
        ElevPattern::Increasing => {
            let n = rng.urange(2, 14);
            (1..=n as u8).map(|e| (e, len(rng))).collect()
        }
        ElevPattern::Sails => {
            // 1,2,1,3,1,4 ... repeated base tilt
            let n = rng.urange(2, 6);
            let mut v = Vec::new();
            for e in 2..2 + n as u8 {
                v.push((1u8, len(rng)));
                v.push((e, len(rng)));
            }
            v
        }
        ElevPattern::RunsOfOne => {
            let n = rng.urange(2, 40);
            let mut v: Vec<(u8, usize)> = Vec::new();
            for _ in 0..n {
                let mut e = rng.u8();
                if let Some(last) = v.last() {
                    if last.0 == e {
                        e = e.wrapping_add(1);
                    }
                }
                v.push((e, 1));
            }
            v
        }
        ElevPattern::Many255 => (0..255u32).map(|e| ((e + 1) as u8, rng.urange(1, 3))).collect(),
        ElevPattern::ManyLong => (0..255u32).map(|e| ((e + 1) as u8, len(rng))).collect(),
    }
}

pub fn gen_volume(rng: &mut Rng, p: &VolParams) -> VolumeSpec {
    let runs = elevation_runs(rng, p);
    let total: usize = runs.iter().map(|r| r.1).sum();
    let vol_at = rng.usize_below(total.max(1)).min(total.saturating_sub(1));
    let base_date = rng.range(2, 60000) as u16;
    let base_time = rng.below(80_000_000) as u32;
    let mut items: Vec<StreamItem> = Vec::new();
    let mut idx = 0usize;
    let mut first_vol_done = false;
    let mut used_vcps: Vec<u16> = Vec::new();
    // leading metadata frames, as in real volumes
    if p.meta_density > 0 {
        for _ in 0..rng.urange(0, 3) {
            let c = *rng.pick(&[15u8, 18, 3, 5, 2, 13]);
            items.push(StreamItem::Meta(gen_fixed(rng, c)));
        }
    }
    // a quarter of the volumes contain retransmitted radials: a message repeated byte for byte
    // right after itself (equal in every field to its predecessor) must still be conserved
    let retransmit = rng.chance(1, 4);
    let shuffled_times = rng.chance(1, 2);
    let zero_first_vcp = rng.chance(1, 10);
    for (elev, n) in runs {
        // a sweep starts at whatever azimuth the antenna is at: numbering runs through north
        // (…, 719, 720, 1, 2, …); an eighth of the runs carry arbitrary numbers in arbitrary order
        let az_start = rng.usize_below(720);
        let az_arbitrary = rng.chance(1, 8);
        for k in 0..n {
            // block subset: VOL only where decided, everything else random
            let mut subset = (rng.below(1024) as u16) & !1;
            let with_vol = idx == vol_at || (first_vol_done && rng.chance(1, 6)) || (idx > vol_at && !first_vol_done);
            if with_vol {
                subset |= 1;
            }
            let mut msg = enc::gen_msg31(rng, subset, false, false);
            msg.hdr.elev_num = elev;
            msg.hdr.status = *rng.pick(&[0u8, 1, 1, 1, 2, 3, 4, 5]);
            msg.hdr.spacing = *rng.pick(&[1u8, 2, 2, 1, 0, 4]);
            msg.hdr.az_num = if az_arbitrary { rng.u16() } else { ((az_start + k) % 720 + 1) as u16 };
            msg.hdr.date = base_date;
            // unique identity; in half of the volumes collection times do not follow file order
            msg.hdr.time = base_time + if shuffled_times { (idx as u32 * 7919) % 100_003 } else { idx as u32 };
            for b in msg.blocks.iter_mut() {
                match b {
                    Block::Mom(m) => {
                        if m.gates > p.max_gates {
                            m.gates = if p.max_gates == 0 { 0 } else { m.gates % (p.max_gates + 1) };
                            m.data.truncate(m.gates as usize * (m.word as usize / 8));
                        }
                    }
                    Block::Vol(v) => {
                        // a pattern number of 0 is a number like any other ("no pattern" is the RDA
                        // status message's convention, not this block's)
                        if used_vcps.is_empty() && zero_first_vcp {
                            v.vcp = 0;
                        }
                        // later VOL blocks carry different VCP numbers
                        while used_vcps.contains(&v.vcp) {
                            v.vcp = v.vcp.wrapping_add(1);
                        }
                        used_vcps.push(v.vcp);
                        first_vol_done = true;
                    }
                    _ => {}
                }
            }
            // a quarter of the radials are laid out loosely (gaps, blocks out of physical order)
            if rng.chance(1, 4) {
                msg.loosen_frameable(rng);
            }
            let hdr = MsgHeader::realistic(rng, 31);
            let repeat = retransmit && rng.chance(1, 5);
            if repeat {
                items.push(StreamItem::Radial { hdr: hdr.clone(), msg: msg.clone() });
            }
            items.push(StreamItem::Radial { hdr, msg });
            idx += 1;
            if p.meta_density > 0 && rng.chance(1, p.meta_density) {
                let c = match rng.below(5) {
                    0 => 2,
                    1 => 5,
                    2 => *rng.pick(&[15u8, 18, 3, 13, 1]),
                    3 => 0,
                    _ => {
                        let c = rng.u8();
                        if c == 31 {
                            0
                        } else {
                            c
                        }
                    }
                };
                items.push(StreamItem::Meta(gen_fixed(rng, c)));
            }
        }
    }
    // cut into records at message boundaries
    let nrec = match rng.below(5) {
        0 => 1,
        1 => items.len().min(rng.urange(1, 200)),
        _ => items.len().min(rng.urange(1, 8)),
    }
    .max(1);
    let mut starts: Vec<usize> = vec![0];
    if nrec > 1 {
        let mut cuts: Vec<usize> = (1..items.len()).collect();
        rng.shuffle(&mut cuts);
        cuts.truncate(nrec - 1);
        cuts.sort();
        starts.extend(cuts);
    }
    let negative_prefix = (0..starts.len()).map(|_| rng.chance(1, 2)).collect();
    let levels = (0..starts.len()).map(|_| rng.range(1, 9) as u32).collect();
    VolumeSpec {
        header: VolHeader::realistic(rng),
        items,
        record_starts: starts,
        negative_prefix,
        levels,
    }
}
