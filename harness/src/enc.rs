//! Hand-written ICD encoders.  Byte offsets are written out from ICD 2620002W / 2620010H tables
//! (DESIGN.md Appendix A); nothing here goes through the repository's structs, so the repository
//! is judged against these layouts and not against itself.

use crate::rng::Rng;

pub const FRAME: usize = 2432;
pub const MSG_HDR: usize = 28;
pub const FRAME_BODY: usize = FRAME - MSG_HDR;

fn put16(b: &mut [u8], off: usize, v: u16) {
    b[off..off + 2].copy_from_slice(&v.to_be_bytes());
}
fn put32(b: &mut [u8], off: usize, v: u32) {
    b[off..off + 4].copy_from_slice(&v.to_be_bytes());
}
fn putf(b: &mut [u8], off: usize, v: f32) {
    b[off..off + 4].copy_from_slice(&v.to_bits().to_be_bytes());
}

// ---------------------------------------------------------------------------------------------
// Message header (28 bytes)
// ---------------------------------------------------------------------------------------------

#[derive(Clone, Debug, PartialEq)]
pub struct MsgHeader {
    pub rpg: [u8; 12],
    pub size: u16,
    pub channel: u8,
    pub mtype: u8,
    pub seq: u16,
    pub date: u16,
    pub time: u32,
    pub seg_count: u16,
    pub seg_num: u16,
}

impl MsgHeader {
    pub fn encode(&self) -> [u8; MSG_HDR] {
        let mut b = [0u8; MSG_HDR];
        b[0..12].copy_from_slice(&self.rpg);
        put16(&mut b, 12, self.size);
        b[14] = self.channel;
        b[15] = self.mtype;
        put16(&mut b, 16, self.seq);
        put16(&mut b, 18, self.date);
        put32(&mut b, 20, self.time);
        put16(&mut b, 24, self.seg_count);
        put16(&mut b, 26, self.seg_num);
        b
    }

    /// A header as real Archive II data carries it: zero RPG bytes, defined channel code,
    /// in-range date/time.
    pub fn realistic(rng: &mut Rng, mtype: u8) -> Self {
        let variable = mtype == 31;
        MsgHeader {
            rpg: [0; 12],
            size: if variable { 0xFFFF } else { 1216 },
            channel: *rng.pick(&[0u8, 1, 2, 8, 9, 10]),
            mtype,
            seq: { let f = rng.u16() as u64; rng.pooled(1, f) as u16 },
            date: { let f = rng.range(2, 40000); (rng.pooled(2, f) % 39_999 + 2) as u16 },
            // midnight exactly and the last millisecond of the day are legal times of day
            time: match rng.below(12) {
                0 => 0,
                1 => 86_399_999,
                2 => 1,
                _ => rng.below(86_400_000) as u32,
            },
            seg_count: if variable { 0 } else { 1 },
            seg_num: if variable { rng.u16() } else { 1 },
        }
    }
}

// ---------------------------------------------------------------------------------------------
// Type 31
// ---------------------------------------------------------------------------------------------

#[derive(Clone, Debug, PartialEq)]
pub struct DataHeader {
    pub id: [u8; 4],
    pub time: u32,
    pub date: u16,
    pub az_num: u16,
    pub az: f32,
    pub comp: u8,
    pub spare: u8,
    pub len: u16,
    pub spacing: u8,
    pub status: u8,
    pub elev_num: u8,
    pub sector: u8,
    pub elev: f32,
    pub blanking: u8,
    pub indexing: u8,
}

#[derive(Clone, Debug, PartialEq)]
pub struct Vol {
    pub lrtup: u16,
    pub major: u8,
    pub minor: u8,
    pub lat: f32,
    pub lon: f32,
    pub site_height: i16,
    pub feedhorn: u16,
    pub calib: f32,
    pub tx_h: f32,
    pub tx_v: f32,
    pub sys_zdr: f32,
    pub init_dp: f32,
    pub vcp: u16,
    pub processing: u16,
    pub zdr_bias: u16,
    pub spare: [u8; 6],
}

#[derive(Clone, Debug, PartialEq)]
pub struct Elv {
    pub lrtup: u16,
    pub atmos: i16,
    pub calib: f32,
}

#[derive(Clone, Debug, PartialEq)]
pub struct Rad {
    pub lrtup: u16,
    pub unamb_range: u16,
    pub noise_h: f32,
    pub noise_v: f32,
    pub nyquist: u16,
    pub flags: u16,
    pub calib_h: f32,
    pub calib_v: f32,
}

#[derive(Clone, Debug, PartialEq)]
pub struct Moment {
    pub name: [u8; 3],
    pub reserved: u32,
    pub gates: u16,
    pub range: u16,
    pub interval: u16,
    pub tover: u16,
    pub snr: u16,
    pub flags: u8,
    pub word: u8,
    pub scale: f32,
    pub offset: f32,
    pub data: Vec<u8>,
}

#[derive(Clone, Debug, PartialEq)]
pub enum Block {
    Vol(Vol),
    Elv(Elv),
    Rad(Rad),
    Mom(Moment),
}

pub const MOMENT_NAMES: [&[u8; 3]; 7] = [b"REF", b"VEL", b"SW ", b"ZDR", b"PHI", b"RHO", b"CFP"];

impl Block {
    pub fn name(&self) -> [u8; 3] {
        match self {
            Block::Vol(_) => *b"VOL",
            Block::Elv(_) => *b"ELV",
            Block::Rad(_) => *b"RAD",
            Block::Mom(m) => m.name,
        }
    }

    /// Index 0..10 in the order VOL ELV RAD REF VEL SW ZDR PHI RHO CFP.
    pub fn slot(&self) -> usize {
        match self {
            Block::Vol(_) => 0,
            Block::Elv(_) => 1,
            Block::Rad(_) => 2,
            Block::Mom(m) => {
                3 + MOMENT_NAMES
                    .iter()
                    .position(|n| **n == m.name)
                    .unwrap_or(0)
            }
        }
    }

    pub fn encode(&self) -> Vec<u8> {
        match self {
            Block::Vol(v) => {
                let mut b = vec![0u8; 52];
                b[0] = b'R';
                b[1..4].copy_from_slice(b"VOL");
                put16(&mut b, 4, v.lrtup);
                b[6] = v.major;
                b[7] = v.minor;
                putf(&mut b, 8, v.lat);
                putf(&mut b, 12, v.lon);
                put16(&mut b, 16, v.site_height as u16);
                put16(&mut b, 18, v.feedhorn);
                putf(&mut b, 20, v.calib);
                putf(&mut b, 24, v.tx_h);
                putf(&mut b, 28, v.tx_v);
                putf(&mut b, 32, v.sys_zdr);
                putf(&mut b, 36, v.init_dp);
                put16(&mut b, 40, v.vcp);
                put16(&mut b, 42, v.processing);
                put16(&mut b, 44, v.zdr_bias);
                b[46..52].copy_from_slice(&v.spare);
                b
            }
            Block::Elv(e) => {
                let mut b = vec![0u8; 12];
                b[0] = b'R';
                b[1..4].copy_from_slice(b"ELV");
                put16(&mut b, 4, e.lrtup);
                put16(&mut b, 6, e.atmos as u16);
                putf(&mut b, 8, e.calib);
                b
            }
            Block::Rad(r) => {
                let mut b = vec![0u8; 28];
                b[0] = b'R';
                b[1..4].copy_from_slice(b"RAD");
                put16(&mut b, 4, r.lrtup);
                put16(&mut b, 6, r.unamb_range);
                putf(&mut b, 8, r.noise_h);
                putf(&mut b, 12, r.noise_v);
                put16(&mut b, 16, r.nyquist);
                put16(&mut b, 18, r.flags);
                putf(&mut b, 20, r.calib_h);
                putf(&mut b, 24, r.calib_v);
                b
            }
            Block::Mom(m) => {
                let mut b = vec![0u8; 28];
                b[0] = b'D';
                b[1..4].copy_from_slice(&m.name);
                put32(&mut b, 4, m.reserved);
                put16(&mut b, 8, m.gates);
                put16(&mut b, 10, m.range);
                put16(&mut b, 12, m.interval);
                put16(&mut b, 14, m.tover);
                put16(&mut b, 16, m.snr);
                b[18] = m.flags;
                b[19] = m.word;
                putf(&mut b, 20, m.scale);
                putf(&mut b, 24, m.offset);
                b.extend_from_slice(&m.data);
                b
            }
        }
    }
}

#[derive(Clone, Debug, PartialEq)]
pub struct Msg31 {
    pub hdr: DataHeader,
    /// Blocks in *pointer-table* order.
    pub blocks: Vec<Block>,
    /// Physical order of the blocks (indices into `blocks`); identity for a contiguous layout.
    pub phys: Vec<usize>,
    /// Gap (filler bytes) placed *before* the physical block k; gaps[0] sits between the
    /// pointer table and the first physical block.
    pub gaps: Vec<usize>,
}

impl Msg31 {
    pub fn contiguous(hdr: DataHeader, blocks: Vec<Block>) -> Self {
        let n = blocks.len();
        Msg31 {
            hdr,
            blocks,
            phys: (0..n).collect(),
            gaps: vec![0; n],
        }
    }

    /// Body bytes (everything after the 28-byte message header); `filler` supplies gap bytes.
    pub fn encode(&self, filler: &mut Rng) -> Vec<u8> {
        let n = self.blocks.len();
        let mut b = vec![0u8; 32 + 4 * n];
        b[0..4].copy_from_slice(&self.hdr.id);
        put32(&mut b, 4, self.hdr.time);
        put16(&mut b, 8, self.hdr.date);
        put16(&mut b, 10, self.hdr.az_num);
        putf(&mut b, 12, self.hdr.az);
        b[16] = self.hdr.comp;
        b[17] = self.hdr.spare;
        put16(&mut b, 18, self.hdr.len);
        b[20] = self.hdr.spacing;
        b[21] = self.hdr.status;
        b[22] = self.hdr.elev_num;
        b[23] = self.hdr.sector;
        putf(&mut b, 24, self.hdr.elev);
        b[28] = self.hdr.blanking;
        b[29] = self.hdr.indexing;
        put16(&mut b, 30, n as u16);
        let mut pointers = vec![0u32; n];
        for (k, &bi) in self.phys.iter().enumerate() {
            let gap = self.gaps.get(k).copied().unwrap_or(0);
            if gap > 0 {
                // Filler never looks like a block name at offset 1..4 of anything we point to,
                // because nothing points into it.
                b.extend_from_slice(&filler.bytes(gap));
            }
            pointers[bi] = b.len() as u32;
            b.extend_from_slice(&self.blocks[bi].encode());
        }
        for (i, p) in pointers.iter().enumerate() {
            put32(&mut b, 32 + 4 * i, *p);
        }
        b
    }

    /// Re-lay the blocks out loosely but still *frameable* in a stream: any physical order and gaps
    /// (for instance the unused slots of a ten-slot pointer area, or alignment fill after an odd
    /// gate count) as long as the block listed last stays physically last, which is where a stream
    /// decoder resumes.  Blocks are reached through their pointers, never by adjacency.
    pub fn loosen_frameable(&mut self, rng: &mut Rng) {
        let n = self.blocks.len();
        if n == 0 {
            return;
        }
        let mut front: Vec<usize> = (0..n - 1).collect();
        if rng.chance(1, 2) {
            rng.shuffle(&mut front);
        }
        front.push(n - 1);
        self.phys = front;
        self.gaps = (0..n).map(|k| if k == 0 && rng.chance(1, 2) { 4 * rng.urange(1, 9) } else if rng.chance(1, 3) { rng.urange(1, 12) } else { 0 }).collect();
    }

    /// Frameable in a stream: the block listed last in the pointer table is physically last.
    pub fn is_frameable(&self) -> bool {
        self.blocks.is_empty() || self.phys.last() == Some(&(self.blocks.len() - 1))
    }

    pub fn is_contiguous(&self) -> bool {
        self.phys.iter().enumerate().all(|(i, &p)| i == p) && self.gaps.iter().all(|&g| g == 0)
    }
}

// ---- random generation of type-31 parts --------------------------------------------------------

/// Distinct-valued scalar source: hands out values that are pairwise distinct within one message
/// per wire type, so transposed same-typed fields are visible.
pub struct Distinct {
    u8s: Vec<u8>,
    u16s: std::collections::HashSet<u16>,
    u32s: std::collections::HashSet<u32>,
}

impl Distinct {
    pub fn new(rng: &mut Rng) -> Self {
        let mut u8s: Vec<u8> = (0..=255u8).collect();
        rng.shuffle(&mut u8s);
        Distinct {
            u8s,
            u16s: Default::default(),
            u32s: Default::default(),
        }
    }
    pub fn u8(&mut self, rng: &mut Rng) -> u8 {
        self.u8s.pop().unwrap_or_else(|| rng.u8())
    }
    pub fn u16(&mut self, rng: &mut Rng) -> u16 {
        loop {
            let v = rng.u16();
            // both bytes differ and not a palindrome so that an endianness slip changes the value
            if (v >> 8) != (v & 0xff) && self.u16s.insert(v) {
                return v;
            }
        }
    }
    pub fn u32(&mut self, rng: &mut Rng) -> u32 {
        loop {
            let v = rng.u32();
            if v.swap_bytes() != v && self.u32s.insert(v) {
                return v;
            }
        }
    }
    /// Finite f32 with a distinct bit pattern (bit patterns share the u32 pool).
    pub fn f32(&mut self, rng: &mut Rng) -> f32 {
        loop {
            let v = rng.f32_finite();
            let bits = v.to_bits();
            if bits.swap_bytes() != bits && self.u32s.insert(bits) {
                return v;
            }
        }
    }
}

/// Angles a radial really carries, and the edges around them: exactly a full turn, just below
/// it, zero of either sign, beyond a turn, negative.  (Arbitrary finite bit patterns come from
/// `Distinct::f32`; these exact values never would.)
pub const SPECIAL_ANGLES: [f32; 12] = [0.0, -0.0, 360.0, 359.99997, 360.00003, 180.0, 90.0, 720.0, -0.5, 0.5, 1.0, 359.5];

pub fn gen_data_header(rng: &mut Rng, d: &mut Distinct) -> DataHeader {
    let mut h = gen_data_header_plain(rng, d);
    if rng.chance(1, 6) {
        let a = *rng.pick(&SPECIAL_ANGLES);
        if a.to_bits() != h.elev.to_bits() {
            h.az = a;
        }
    }
    if rng.chance(1, 10) {
        let a = *rng.pick(&SPECIAL_ANGLES);
        if a.to_bits() != h.az.to_bits() {
            h.elev = a;
        }
    }
    h
}

fn gen_data_header_plain(rng: &mut Rng, d: &mut Distinct) -> DataHeader {
    DataHeader {
        id: {
            let f = rng.below(26 * 26 * 26);
            let v = rng.pooled(3, f) % (26 * 26 * 26);
            [b'K', b'A' + (v / 676) as u8, b'A' + (v / 26 % 26) as u8, b'A' + (v % 26) as u8]
        },
        time: { let f = rng.below(86_400_000); (rng.pooled(4, f) % 86_400_000) as u32 },
        date: rng.range(2, 65535) as u16,
        az_num: d.u16(rng),
        az: d.f32(rng),
        comp: d.u8(rng),
        spare: d.u8(rng),
        len: d.u16(rng),
        spacing: d.u8(rng),
        status: d.u8(rng),
        elev_num: d.u8(rng),
        sector: d.u8(rng),
        elev: d.f32(rng),
        blanking: d.u8(rng),
        indexing: d.u8(rng),
    }
}

/// LRTUP ("size of this block") takes small and boundary values as well as arbitrary ones: a
/// decoder that keys behaviour on it must still report every other field as stored.
fn gen_lrtup(rng: &mut Rng, d: &mut Distinct) -> u16 {
    match rng.below(4) {
        0 => *rng.pick(&[0u16, 1, 12, 28, 44, 51, 52, 53, 0xFFFF]),
        _ => d.u16(rng),
    }
}

pub fn gen_vol(rng: &mut Rng, d: &mut Distinct) -> Vol {
    Vol {
        lrtup: gen_lrtup(rng, d),
        major: d.u8(rng),
        minor: d.u8(rng),
        lat: d.f32(rng),
        lon: d.f32(rng),
        site_height: d.u16(rng) as i16,
        feedhorn: d.u16(rng),
        calib: d.f32(rng),
        tx_h: d.f32(rng),
        tx_v: d.f32(rng),
        sys_zdr: d.f32(rng),
        init_dp: d.f32(rng),
        vcp: { let f = d.u16(rng) as u64; rng.pooled(6, f) as u16 },
        processing: d.u16(rng),
        zdr_bias: d.u16(rng),
        spare: [d.u8(rng), d.u8(rng), d.u8(rng), d.u8(rng), d.u8(rng), d.u8(rng)],
    }
}

pub fn gen_elv(rng: &mut Rng, d: &mut Distinct) -> Elv {
    Elv {
        lrtup: gen_lrtup(rng, d),
        atmos: d.u16(rng) as i16,
        calib: d.f32(rng),
    }
}

pub fn gen_rad(rng: &mut Rng, d: &mut Distinct) -> Rad {
    Rad {
        lrtup: gen_lrtup(rng, d),
        unamb_range: d.u16(rng),
        noise_h: d.f32(rng),
        noise_v: d.f32(rng),
        nyquist: d.u16(rng),
        flags: d.u16(rng),
        calib_h: d.f32(rng),
        calib_v: d.f32(rng),
    }
}

/// Gate counts pushed to the edges the properties name.
pub fn gen_gates(rng: &mut Rng, big: bool) -> u16 {
    match rng.below(12) {
        0 => 0,
        1 => 1,
        2 => 2,
        3 => 1840,
        4 => 1839,
        5 => 920,
        6 if big => *rng.pick(&[1841u16, 2048, 4095, 4096, 4097, 8192, 12288, 32767, 32768, 65535]),
        7 | 8 => rng.range(3, 64) as u16,
        _ => rng.range(3, 1840) as u16,
    }
}

pub fn gen_moment(rng: &mut Rng, d: &mut Distinct, name: [u8; 3], gates: u16, word: u8) -> Moment {
    let n = gates as usize * (word as usize / 8);
    let mut data = rng.bytes(n);
    // one 16-bit moment in eight is "quiet": every word fits in a byte (high bytes zero)
    if word == 16 && rng.chance(1, 8) {
        for k in (0..n).step_by(2) {
            data[k] = 0;
        }
    }
    // make sentinel raws frequent
    for i in 0..n.min(16) {
        if rng.chance(1, 4) {
            data[i] = rng.below(3) as u8;
        }
    }
    Moment {
        name,
        reserved: d.u32(rng),
        gates,
        range: d.u16(rng),
        interval: d.u16(rng),
        tover: d.u16(rng),
        snr: d.u16(rng),
        // documented control-flag codes only (the accessor is undefined elsewhere)
        flags: rng.below(4) as u8,
        word,
        scale: match rng.below(6) {
            0 => 0.0,
            1 => 2.0,
            2 => 0.5,
            _ => d.f32(rng),
        },
        offset: match rng.below(4) {
            0 => 66.0,
            1 => 129.0,
            _ => d.f32(rng),
        },
        data,
    }
}

/// A type-31 message with the given block subset (bit i of `subset` = slot i in the order
/// VOL ELV RAD REF VEL SW ZDR PHI RHO CFP).
pub fn gen_msg31(rng: &mut Rng, subset: u16, permute: bool, big_gates: bool) -> Msg31 {
    let mut d = Distinct::new(rng);
    let hdr = gen_data_header(rng, &mut d);
    let mut blocks = Vec::new();
    for slot in 0..10 {
        if subset & (1 << slot) == 0 {
            continue;
        }
        blocks.push(match slot {
            0 => Block::Vol(gen_vol(rng, &mut d)),
            1 => Block::Elv(gen_elv(rng, &mut d)),
            2 => Block::Rad(gen_rad(rng, &mut d)),
            _ => {
                let word = if rng.chance(1, 4) { 16 } else { 8 };
                let gates = gen_gates(rng, big_gates);
                Block::Mom(gen_moment(rng, &mut d, *MOMENT_NAMES[slot - 3], gates, word))
            }
        });
    }
    // pointer-table order is independent of slot order
    if permute || rng.chance(1, 2) {
        rng.shuffle(&mut blocks);
    }
    let n = blocks.len();
    let mut m = Msg31::contiguous(hdr, blocks);
    if permute {
        rng.shuffle(&mut m.phys);
        m.gaps = (0..n)
            .map(|_| if rng.chance(1, 3) { rng.urange(1, 40) } else { 0 })
            .collect();
    }
    m
}

// ---------------------------------------------------------------------------------------------
// Type 5 — Volume Coverage Pattern
// ---------------------------------------------------------------------------------------------

#[derive(Clone, Debug, PartialEq)]
pub struct VcpHeader {
    pub size: u16,
    pub pattern_type: u16,
    pub pattern_number: u16,
    pub cuts: u16,
    pub version: u8,
    pub clutter_group: u8,
    pub doppler_res: u8,
    pub pulse_width: u8,
    pub reserved1: u32,
    pub sequencing: u16,
    pub supplemental: u16,
    pub reserved2: u16,
}

#[derive(Clone, Debug, PartialEq, Default)]
pub struct VcpCut {
    pub angle: u16,
    pub channel: u8,
    pub waveform: u8,
    pub super_res: u8,
    pub surv_prf: u8,
    pub surv_pulses: u16,
    pub az_rate: u16,
    pub thresholds: [i16; 6],
    pub edge1: u16,
    pub prf1: u16,
    pub pulses1: u16,
    pub supplemental: u16,
    pub edge2: u16,
    pub prf2: u16,
    pub pulses2: u16,
    pub ebc: u16,
    pub edge3: u16,
    pub prf3: u16,
    pub pulses3: u16,
    pub reserved: u16,
}

impl VcpHeader {
    pub fn encode(&self) -> Vec<u8> {
        let mut b = vec![0u8; 22];
        put16(&mut b, 0, self.size);
        put16(&mut b, 2, self.pattern_type);
        put16(&mut b, 4, self.pattern_number);
        put16(&mut b, 6, self.cuts);
        b[8] = self.version;
        b[9] = self.clutter_group;
        b[10] = self.doppler_res;
        b[11] = self.pulse_width;
        put32(&mut b, 12, self.reserved1);
        put16(&mut b, 16, self.sequencing);
        put16(&mut b, 18, self.supplemental);
        put16(&mut b, 20, self.reserved2);
        b
    }
}

impl VcpCut {
    pub fn encode(&self) -> Vec<u8> {
        let mut b = vec![0u8; 46];
        put16(&mut b, 0, self.angle);
        b[2] = self.channel;
        b[3] = self.waveform;
        b[4] = self.super_res;
        b[5] = self.surv_prf;
        put16(&mut b, 6, self.surv_pulses);
        put16(&mut b, 8, self.az_rate);
        for (i, t) in self.thresholds.iter().enumerate() {
            put16(&mut b, 10 + 2 * i, *t as u16);
        }
        put16(&mut b, 22, self.edge1);
        put16(&mut b, 24, self.prf1);
        put16(&mut b, 26, self.pulses1);
        put16(&mut b, 28, self.supplemental);
        put16(&mut b, 30, self.edge2);
        put16(&mut b, 32, self.prf2);
        put16(&mut b, 34, self.pulses2);
        put16(&mut b, 36, self.ebc);
        put16(&mut b, 38, self.edge3);
        put16(&mut b, 40, self.prf3);
        put16(&mut b, 42, self.pulses3);
        put16(&mut b, 44, self.reserved);
        b
    }
}

#[derive(Clone, Debug, PartialEq)]
pub struct Vcp {
    pub hdr: VcpHeader,
    pub cuts: Vec<VcpCut>,
}

impl Vcp {
    /// Body bytes, unpadded.
    pub fn encode(&self) -> Vec<u8> {
        let mut b = self.hdr.encode();
        for c in &self.cuts {
            b.extend_from_slice(&c.encode());
        }
        b
    }
}

pub fn gen_vcp_cut(rng: &mut Rng, d: &mut Distinct) -> VcpCut {
    VcpCut {
        angle: d.u16(rng),
        channel: d.u8(rng),
        waveform: d.u8(rng),
        super_res: d.u8(rng),
        surv_prf: d.u8(rng),
        surv_pulses: d.u16(rng),
        az_rate: d.u16(rng),
        thresholds: [
            d.u16(rng) as i16,
            d.u16(rng) as i16,
            d.u16(rng) as i16,
            d.u16(rng) as i16,
            d.u16(rng) as i16,
            d.u16(rng) as i16,
        ],
        edge1: d.u16(rng),
        prf1: d.u16(rng),
        pulses1: d.u16(rng),
        supplemental: d.u16(rng),
        edge2: d.u16(rng),
        prf2: d.u16(rng),
        pulses2: d.u16(rng),
        ebc: d.u16(rng),
        edge3: d.u16(rng),
        prf3: d.u16(rng),
        pulses3: d.u16(rng),
        reserved: d.u16(rng),
    }
}

pub fn gen_vcp(rng: &mut Rng, ncuts: usize) -> Vcp {
    let mut d = Distinct::new(rng);
    let hdr = VcpHeader {
        size: d.u16(rng),
        pattern_type: d.u16(rng),
        pattern_number: { let f = d.u16(rng) as u64; rng.pooled(5, f) as u16 },
        cuts: ncuts as u16,
        version: d.u8(rng),
        clutter_group: d.u8(rng),
        doppler_res: d.u8(rng),
        pulse_width: d.u8(rng),
        reserved1: d.u32(rng),
        sequencing: d.u16(rng),
        supplemental: d.u16(rng),
        reserved2: d.u16(rng),
    };
    let cuts = (0..ncuts)
        .map(|_| {
            // u8 pool is 256 deep and a cut consumes 4: refresh per cut (distinct within a cut)
            let mut dc = Distinct::new(rng);
            std::mem::swap(&mut dc.u16s, &mut d.u16s);
            let c = gen_vcp_cut(rng, &mut dc);
            std::mem::swap(&mut dc.u16s, &mut d.u16s);
            c
        })
        .collect();
    Vcp { hdr, cuts }
}

// ---------------------------------------------------------------------------------------------
// Type 2 — RDA status (60 halfwords)
// ---------------------------------------------------------------------------------------------

/// Exactly `n` bytes of valid UTF-8 made of characters of mixed widths (1..=4 bytes), so that
/// character boundaries fall on arbitrary byte offsets.
pub fn utf8_fill(rng: &mut Rng, n: usize) -> Vec<u8> {
    const POOL: [&str; 10] = ["A", "7", ".", "\u{e9}", "\u{df}", "\u{65e5}", "\u{20ac}", "\u{1f600}", "\u{10348}", "_"];
    let mut out: Vec<u8> = Vec::with_capacity(n);
    while out.len() < n {
        let c = POOL[rng.usize_below(POOL.len())];
        if out.len() + c.len() <= n {
            out.extend_from_slice(c.as_bytes());
        } else {
            out.push(b'x');
        }
    }
    out
}

pub fn encode_halfwords(h: &[u16]) -> Vec<u8> {
    let mut b = Vec::with_capacity(h.len() * 2);
    for v in h {
        b.extend_from_slice(&v.to_be_bytes());
    }
    b
}

/// 60 halfwords whose coded fields are inside their documented domains (so that every accessor
/// and the summary may be called), everything else arbitrary.
pub fn gen_rda_status_in_domain(rng: &mut Rng) -> [u16; 60] {
    let mut h = [0u16; 60];
    for v in h.iter_mut() {
        *v = rng.u16();
    }
    h[0] = *rng.pick(&[2u16, 4, 8, 16]); // rda status
    h[1] = *rng.pick(&[2u16, 4, 8, 16, 32]); // operability
    h[2] = *rng.pick(&[2u16, 4, 8]); // control status
    h[3] = *rng.pick(&[1u16, 2, 4, 8, 16]); // aux power
    h[6] = *rng.pick(&[2u16, 4, 8, 2 | 4, 2 | 4 | 8, 4 | 8]); // data transmission enabled
    h[7] = match rng.below(4) {
        0 => 0,
        1 => *rng.pick(&[12u16, 31, 35, 112, 212, 215]),
        2 => (-(*rng.pick(&[12i16, 31, 35, 112, 212, 215]))) as u16,
        _ => rng.range(1, 32767) as u16,
    };
    h[8] = *rng.pick(&[0u16, 2, 4]); // control authorization
    h[10] = *rng.pick(&[4u16, 8]); // operational mode
    h[11] = *rng.pick(&[2u16, 4]); // super resolution
    h[12] = *rng.pick(&[0u16, 1, 2, 4, 8, 16, 32]); // clutter mitigation
    // scan and data flags: exactly one of AVSET enabled (bit 1) / disabled (bit 2) plus optional
    // documented flags (bits 3..5)
    h[13] = *rng.pick(&[2u16, 4]) | (rng.below(8) as u16) << 3;
    h[14] = rng.below(128) as u16; // alarm summary
    h[15] = rng.below(5) as u16; // command ack
    h[16] = rng.below(2) as u16; // channel control
    h[17] = *rng.pick(&[0u16, 1, 4]); // spot blanking
    h[23] = *rng.pick(&[0u16, 1, 3, 4]); // TPS
    h[24] = *rng.pick(&[0u16, 2, 4]); // RMS
    h[25] = *rng.pick(&[0u16, 1, 2]); // perf check
    for i in 26..40 {
        h[i] = if rng.chance(1, 2) { 0 } else { rng.range(1, 800) as u16 };
    }
    h
}

// ---------------------------------------------------------------------------------------------
// Type 15 — clutter filter map
// ---------------------------------------------------------------------------------------------

#[derive(Clone, Debug, PartialEq)]
pub struct ClutterMap {
    pub date: u16,
    pub minutes: u16,
    /// segments[s][az] = list of (op_code, end_range)
    pub segments: Vec<Vec<Vec<(u16, u16)>>>,
}

impl ClutterMap {
    pub fn encode(&self) -> Vec<u8> {
        self.encode_with_boundaries().0
    }

    /// Bytes plus the list of structural boundary offsets (after header, after each azimuth
    /// header, after each zone).
    pub fn encode_with_boundaries(&self) -> (Vec<u8>, Vec<usize>) {
        let mut b = Vec::new();
        let mut bounds = Vec::new();
        b.extend_from_slice(&self.date.to_be_bytes());
        b.extend_from_slice(&self.minutes.to_be_bytes());
        b.extend_from_slice(&(self.segments.len() as u16).to_be_bytes());
        bounds.push(b.len());
        for seg in &self.segments {
            for az in seg {
                b.extend_from_slice(&(az.len() as u16).to_be_bytes());
                bounds.push(b.len());
                for (op, end) in az {
                    b.extend_from_slice(&op.to_be_bytes());
                    b.extend_from_slice(&end.to_be_bytes());
                }
                if !az.is_empty() {
                    bounds.push(b.len());
                }
            }
        }
        (b, bounds)
    }
}

// ---------------------------------------------------------------------------------------------
// Frames and streams
// ---------------------------------------------------------------------------------------------

/// A fixed 2432-byte frame: header + body padded (or cut) to 2404 bytes with `pad`.
pub fn frame(hdr: &MsgHeader, body: &[u8], pad: u8) -> Vec<u8> {
    let mut f = Vec::with_capacity(FRAME);
    f.extend_from_slice(&hdr.encode());
    let n = body.len().min(FRAME_BODY);
    f.extend_from_slice(&body[..n]);
    f.resize(FRAME, pad);
    f
}

/// A variable-length type-31 message: header + body as is.
pub fn msg31_bytes(hdr: &MsgHeader, body: &[u8]) -> Vec<u8> {
    let mut f = Vec::with_capacity(MSG_HDR + body.len());
    f.extend_from_slice(&hdr.encode());
    f.extend_from_slice(body);
    f
}

// ---------------------------------------------------------------------------------------------
// Archive II volume container
// ---------------------------------------------------------------------------------------------

#[derive(Clone, Debug, PartialEq)]
pub struct VolHeader {
    pub tape: [u8; 9],
    pub ext: [u8; 3],
    pub date: u32,
    pub time: u32,
    pub icao: [u8; 4],
}

impl VolHeader {
    pub fn encode(&self) -> [u8; 24] {
        let mut b = [0u8; 24];
        b[0..9].copy_from_slice(&self.tape);
        b[9..12].copy_from_slice(&self.ext);
        put32(&mut b, 12, self.date);
        put32(&mut b, 16, self.time);
        b[20..24].copy_from_slice(&self.icao);
        b
    }

    pub fn realistic(rng: &mut Rng) -> Self {
        // (extension numbers run 001..999 in real files; the field holds any three characters,
        // "000" among them)
        let v = if rng.chance(1, 12) { 0 } else { let f = rng.range(1, 999); rng.pooled(7, f) % 999 + 1 };
        VolHeader {
            tape: *b"AR2V0006.",
            ext: [
                b'0' + (v / 100) as u8,
                b'0' + (v / 10 % 10) as u8,
                b'0' + (v % 10) as u8,
            ],
            date: { let f = rng.range(2, 40000); (rng.pooled(8, f) % 39_999 + 2) as u32 },
            time: { let f = rng.below(86_400_000); (rng.pooled(9, f) % 86_400_000) as u32 },
            icao: *b"KDMX",
        }
    }
}

#[cfg(feature = "bz")]
pub fn bzip2_compress(payload: &[u8], level: u32) -> Vec<u8> {
    use bzip2::write::BzEncoder;
    use bzip2::Compression;
    use std::io::Write;
    let mut enc = BzEncoder::new(Vec::new(), Compression::new(level.clamp(1, 9)));
    enc.write_all(payload).expect("bzip2 encode (in-memory)");
    enc.finish().expect("bzip2 finish (in-memory)")
}

/// One LDM record: 4-byte size prefix (negated when `negative`) + body.
pub fn ldm_record(body: &[u8], negative: bool) -> Vec<u8> {
    let size = body.len() as i32;
    let prefix = if negative { -size } else { size };
    let mut r = Vec::with_capacity(4 + body.len());
    r.extend_from_slice(&prefix.to_be_bytes());
    r.extend_from_slice(body);
    r
}
