//! Process-level monitors: panic capture, per-thread counting allocator, counting reader.

use std::alloc::{GlobalAlloc, Layout, System};
use std::cell::{Cell, RefCell};
use std::io::{self, Read, Seek, SeekFrom};
use std::panic::{catch_unwind, AssertUnwindSafe};

// ---------------------------------------------------------------------------------------------
// Panic capture
// ---------------------------------------------------------------------------------------------

#[derive(Clone, Debug)]
pub struct PanicInfo {
    pub message: String,
    pub file: String,
    pub line: u32,
}

impl PanicInfo {
    /// Signature = file (path inside the repository, or crate-relative for dependencies) plus the
    /// message with every digit run collapsed, so that the same defect on different inputs has
    /// one signature while a different panic site or message does not.
    pub fn signature(&self) -> String {
        let mut stem = String::new();
        let mut last_digit = false;
        for c in self.message.chars() {
            if stem.chars().count() >= 40 {
                break;
            }
            if c.is_ascii_digit() {
                if !last_digit {
                    stem.push('#');
                }
                last_digit = true;
            } else {
                stem.push(c);
                last_digit = false;
            }
        }
        format!("panic@{}:{}", short_file(&self.file), stem)
    }
}

pub fn short_file(f: &str) -> String {
    if let Some(i) = f.find("/nexrad") {
        // /repo/nexrad-decode/src/... -> nexrad-decode/src/...
        let tail = &f[i + 1..];
        return tail.to_string();
    }
    if let Some(i) = f.find("registry/src/") {
        let tail = &f[i + "registry/src/".len()..];
        if let Some(j) = tail.find('/') {
            return tail[j + 1..].to_string();
        }
    }
    f.to_string()
}

thread_local! {
    static LAST_PANIC: RefCell<Option<PanicInfo>> = const { RefCell::new(None) };
    static CAPTURING: Cell<bool> = const { Cell::new(false) };
}

pub fn install_panic_hook() {
    let default = std::panic::take_hook();
    std::panic::set_hook(Box::new(move |info| {
        let capturing = CAPTURING.with(|c| c.get());
        if capturing {
            let message = if let Some(s) = info.payload().downcast_ref::<&str>() {
                s.to_string()
            } else if let Some(s) = info.payload().downcast_ref::<String>() {
                s.clone()
            } else {
                "<non-string panic payload>".to_string()
            };
            let (file, line) = info
                .location()
                .map(|l| (l.file().to_string(), l.line()))
                .unwrap_or_else(|| ("<unknown>".to_string(), 0));
            LAST_PANIC.with(|p| {
                *p.borrow_mut() = Some(PanicInfo {
                    message,
                    file,
                    line,
                })
            });
        } else {
            default(info);
        }
    }));
}

/// Run `f` (a whole case, with monitored calls of its own inside); a panic that escapes it is
/// returned with its location.  No termination or memory bookkeeping: the calls inside have theirs.
pub fn catch_escaped(f: impl FnOnce()) -> Result<(), PanicInfo> {
    let prev = CAPTURING.with(|c| c.replace(true));
    let r = catch_unwind(AssertUnwindSafe(f));
    CAPTURING.with(|c| c.set(prev));
    match r {
        Ok(()) => Ok(()),
        Err(_) => Err(LAST_PANIC.with(|p| p.borrow_mut().take()).unwrap_or(PanicInfo { message: "<panic without hook info>".into(), file: "<unknown>".into(), line: 0 })),
    }
}

/// Run `f`, converting a panic into `Err(PanicInfo)`.
pub fn catch<T>(f: impl FnOnce() -> T) -> Result<T, PanicInfo> {
    let prev = CAPTURING.with(|c| c.replace(true));
    LAST_PANIC.with(|p| *p.borrow_mut() = None);
    // every monitored call is also a case of the CPU-time termination monitor, unless the caller
    // has already published a more specific one (C04/C06 publish the input bytes)
    let publish = !case_active();
    if publish {
        generic_begin();
    }
    // ... and of the memory monitor: unless the caller measures a window of its own (C04), the
    // call may not hold more than HARD_CAP_BYTES above what this thread held when it began.  A
    // library call that grows without bound is then parked and reported by the watchdog instead of
    // the operating system killing the process (which would leave no verdict).
    ensure_registered();
    let own_window = WINDOW_BASE.with(|b| {
        if b.get() == isize::MIN {
            b.set(CUR.with(|c| c.get()));
            true
        } else {
            false
        }
    });
    let r = catch_unwind(AssertUnwindSafe(f));
    if own_window {
        WINDOW_BASE.with(|b| b.set(isize::MIN));
    }
    if publish {
        generic_end();
    }
    CAPTURING.with(|c| c.set(prev));
    match r {
        Ok(v) => Ok(v),
        Err(_) => Err(LAST_PANIC.with(|p| p.borrow_mut().take()).unwrap_or(PanicInfo {
            message: "<panic without hook info>".into(),
            file: "<unknown>".into(),
            line: 0,
        })),
    }
}

// ---------------------------------------------------------------------------------------------
// Counting allocator (per-thread current / peak)
// ---------------------------------------------------------------------------------------------

pub struct CountingAlloc;

/// Hard cap on what one monitored call may hold above its baseline.  Far above any bound a
/// property states (the decoders' bound is 24 MiB + 64 n); its only purpose is to turn "the
/// operating system killed the process for lack of memory" into a reportable observation: the
/// offending thread is parked inside the allocator and the watchdog thread reports the case.
pub const HARD_CAP_BYTES: isize = 2 << 30;
pub static MEM_BREACH_CLOCK: std::sync::atomic::AtomicI64 = std::sync::atomic::AtomicI64::new(-1);
pub static MEM_BREACH_BYTES: std::sync::atomic::AtomicU64 = std::sync::atomic::AtomicU64::new(0);

thread_local! {
    /// Baseline of the active measurement window on this thread (isize::MIN = no window).
    static WINDOW_BASE: Cell<isize> = const { Cell::new(isize::MIN) };
    static MY_CLOCK: Cell<i64> = const { Cell::new(-1) };
    static CUR: Cell<isize> = const { Cell::new(0) };
    static PEAK: Cell<isize> = const { Cell::new(0) };
    static ALLOCS: Cell<u64> = const { Cell::new(0) };
    static LARGEST: Cell<usize> = const { Cell::new(0) };
}

#[inline]
fn on_alloc(size: usize) {
    let _ = CUR.try_with(|c| {
        let v = c.get() + size as isize;
        c.set(v);
        let base = WINDOW_BASE.try_with(|b| b.get()).unwrap_or(isize::MIN);
        if base != isize::MIN && v - base > HARD_CAP_BYTES {
            // park this thread (no allocation, no locks held) and let the watchdog report
            let clock = MY_CLOCK.try_with(|k| k.get()).unwrap_or(-1);
            MEM_BREACH_BYTES.store((v - base) as u64, std::sync::atomic::Ordering::SeqCst);
            MEM_BREACH_CLOCK.store(clock, std::sync::atomic::Ordering::SeqCst);
            loop {
                std::thread::sleep(std::time::Duration::from_secs(3600));
            }
        }
        let _ = PEAK.try_with(|p| {
            if v > p.get() {
                p.set(v)
            }
        });
    });
    let _ = ALLOCS.try_with(|a| a.set(a.get() + 1));
    let _ = LARGEST.try_with(|l| {
        if size > l.get() {
            l.set(size)
        }
    });
}

#[inline]
fn on_dealloc(size: usize) {
    let _ = CUR.try_with(|c| c.set(c.get() - size as isize));
}

// ---------------------------------------------------------------------------------------------
// Guard allocator: the counting allocator doubles as a memory-safety monitor for the main run.
//
// The repository is `#![forbid(unsafe_code)]` today; a change that relaxes that for a hot path
// (`get_unchecked`, `Vec::set_len`, `MaybeUninit`, `from_raw_parts`) can read bytes it never
// wrote or bytes beyond a buffer, and in an ordinary process such reads usually return zeros or a
// neighbour's plausible data, so value oracles see nothing.  With the guard on (default; off with
// VERIF_GUARD_ALLOC=0, which the valgrind / ASan lanes set because filling memory would make it
// "defined" for memcheck):
//   * fresh memory is filled with junk (0xA7), freed memory with other junk (0xDD): a read of
//     uninitialised or freed heap bytes yields values no reference model expects;
//   * every block sits between two red zones (>= 16 bytes of 0xFB in front, 16 bytes of 0xFD
//     behind): a read past either end yields junk as well, and a *write* past either end is found
//     when the block is freed (or grown) and reported as a violation of the property whose
//     workload was running, whatever the values looked like.
// Correct code never reads what it has not written and never leaves its blocks, so none of this
// can raise an alarm on a tree where the property holds.
// ---------------------------------------------------------------------------------------------

const TAIL: usize = 16;
const FRESH: u8 = 0xA7;
const FREED: u8 = 0xDD;
const HEAD_BYTE: u8 = 0xFB;
const TAIL_BYTE: u8 = 0xFD;

static GUARD_MODE: std::sync::atomic::AtomicU8 = std::sync::atomic::AtomicU8::new(0);
pub static GUARD_OVERRUNS: std::sync::atomic::AtomicU64 = std::sync::atomic::AtomicU64::new(0);
/// size of the first overrun block << 8 | 1 (front) / 2 (behind) / 3 (both)
pub static GUARD_FIRST: std::sync::atomic::AtomicU64 = std::sync::atomic::AtomicU64::new(0);
pub static GUARD_BLOCKS: std::sync::atomic::AtomicU64 = std::sync::atomic::AtomicU64::new(0);

thread_local! {
    static TL_OVERRUNS: Cell<u64> = const { Cell::new(0) };
    static TL_BLOCKS: Cell<u64> = const { Cell::new(0) };
}

/// Overruns found so far when blocks were released *on this thread*.
pub fn guard_overruns_on_this_thread() -> u64 {
    TL_OVERRUNS.try_with(|c| c.get()).unwrap_or(0)
}

#[inline]
pub fn guard_on() -> bool {
    use std::sync::atomic::Ordering::Relaxed;
    match GUARD_MODE.load(Relaxed) {
        1 => true,
        2 => false,
        _ => {
            // decided at the first allocation of the process, without allocating: every block
            // must be released the way it was obtained
            let v = unsafe { libc::getenv(b"VERIF_GUARD_ALLOC\0".as_ptr() as *const libc::c_char) };
            let off = !v.is_null() && unsafe { *v } == b'0' as libc::c_char;
            GUARD_MODE.store(if off { 2 } else { 1 }, Relaxed);
            !off
        }
    }
}

#[inline]
fn head_of(layout: &Layout) -> usize {
    layout.align().max(16)
}

#[inline]
unsafe fn guarded(layout: &Layout) -> Option<Layout> {
    let total = head_of(layout).checked_add(layout.size())?.checked_add(TAIL)?;
    Layout::from_size_align(total, layout.align()).ok()
}

unsafe fn guard_alloc(layout: Layout, zeroed: bool) -> *mut u8 {
    let Some(outer) = guarded(&layout) else { return std::ptr::null_mut() };
    let base = if zeroed { System.alloc_zeroed(outer) } else { System.alloc(outer) };
    if base.is_null() {
        return base;
    }
    let head = head_of(&layout);
    std::ptr::write_bytes(base, HEAD_BYTE, head);
    let user = base.add(head);
    if !zeroed {
        std::ptr::write_bytes(user, FRESH, layout.size());
    }
    std::ptr::write_bytes(user.add(layout.size()), TAIL_BYTE, TAIL);
    // counted per thread and added to the shared counter every 4,096 blocks (one shared atomic
    // touched by every allocation of every thread would serialise the workers)
    let _ = TL_BLOCKS.try_with(|c| {
        let v = c.get() + 1;
        if v >= 4_096 {
            GUARD_BLOCKS.fetch_add(v, std::sync::atomic::Ordering::Relaxed);
            c.set(0);
        } else {
            c.set(v);
        }
    });
    user
}

unsafe fn guard_release(user: *mut u8, layout: Layout) {
    let head = head_of(&layout);
    let base = user.sub(head);
    let mut side = 0u64;
    for i in 0..head {
        if *base.add(i) != HEAD_BYTE {
            side |= 1;
            break;
        }
    }
    let tail = user.add(layout.size());
    for i in 0..TAIL {
        if *tail.add(i) != TAIL_BYTE {
            side |= 2;
            break;
        }
    }
    if side != 0 {
        use std::sync::atomic::Ordering::SeqCst;
        if GUARD_OVERRUNS.fetch_add(1, SeqCst) == 0 {
            GUARD_FIRST.store((layout.size() as u64) << 8 | side, SeqCst);
        }
        let _ = TL_OVERRUNS.try_with(|c| c.set(c.get() + 1));
    }
    std::ptr::write_bytes(user, FREED, layout.size());
    if let Some(outer) = guarded(&layout) {
        System.dealloc(base, outer);
    }
}

/// Run once at start-up: the guard must see what it claims to see (a monitor that cannot fire
/// proves nothing).  Reads a fresh block, reads behind it, writes behind it, and expects junk, junk
/// and a recorded overrun; the overrun it provoked itself is then taken off the counters.
pub fn guard_self_check() -> Result<(), String> {
    if !guard_on() {
        return Ok(());
    }
    use std::sync::atomic::Ordering::SeqCst;
    let before = GUARD_OVERRUNS.load(SeqCst);
    let first_before = GUARD_FIRST.load(SeqCst);
    let tl_before = guard_overruns_on_this_thread();
    unsafe {
        let layout = Layout::from_size_align(40, 8).unwrap();
        let p = CountingAlloc.alloc(layout);
        if p.is_null() {
            return Err("allocation failed".into());
        }
        let fresh = std::ptr::read_volatile(p.add(7));
        let beyond = std::ptr::read_volatile(p.add(40));
        let before_block = std::ptr::read_volatile(p.sub(1));
        std::ptr::write_volatile(p.add(41), 0x11);
        CountingAlloc.dealloc(p, layout);
        if fresh != FRESH || beyond != TAIL_BYTE || before_block != HEAD_BYTE {
            return Err(format!("fresh/beyond/before bytes read {:#x}/{:#x}/{:#x}", fresh, beyond, before_block));
        }
    }
    if GUARD_OVERRUNS.load(SeqCst) != before + 1 {
        return Err("a write behind a block was not noticed when the block was released".into());
    }
    GUARD_OVERRUNS.fetch_sub(1, SeqCst);
    GUARD_FIRST.store(first_before, SeqCst);
    let _ = TL_OVERRUNS.try_with(|c| c.set(tl_before));
    Ok(())
}

unsafe impl GlobalAlloc for CountingAlloc {
    unsafe fn alloc(&self, layout: Layout) -> *mut u8 {
        let p = if guard_on() { guard_alloc(layout, false) } else { System.alloc(layout) };
        if !p.is_null() {
            on_alloc(layout.size());
        }
        p
    }
    unsafe fn alloc_zeroed(&self, layout: Layout) -> *mut u8 {
        let p = if guard_on() { guard_alloc(layout, true) } else { System.alloc_zeroed(layout) };
        if !p.is_null() {
            on_alloc(layout.size());
        }
        p
    }
    unsafe fn dealloc(&self, ptr: *mut u8, layout: Layout) {
        if guard_on() {
            guard_release(ptr, layout);
        } else {
            System.dealloc(ptr, layout);
        }
        on_dealloc(layout.size());
    }
    unsafe fn realloc(&self, ptr: *mut u8, layout: Layout, new_size: usize) -> *mut u8 {
        if guard_on() {
            // a grown block's new part is as uninitialised as a fresh block's: obtain, copy, release
            let Ok(new_layout) = Layout::from_size_align(new_size, layout.align()) else { return std::ptr::null_mut() };
            let p = guard_alloc(new_layout, false);
            if !p.is_null() {
                std::ptr::copy_nonoverlapping(ptr, p, layout.size().min(new_size));
                guard_release(ptr, layout);
                on_dealloc(layout.size());
                on_alloc(new_size);
            }
            return p;
        }
        let p = System.realloc(ptr, layout, new_size);
        if !p.is_null() {
            on_dealloc(layout.size());
            on_alloc(new_size);
        }
        p
    }
}

/// Start a measurement window on this thread: peak := current, largest := 0.
pub fn alloc_window_begin() -> isize {
    let cur = CUR.with(|c| c.get());
    WINDOW_BASE.with(|b| b.set(cur));
    PEAK.with(|p| p.set(cur));
    LARGEST.with(|l| l.set(0));
    cur
}

/// Peak bytes above the baseline returned by `alloc_window_begin`, and the largest single request.
pub fn alloc_window_end(baseline: isize) -> (usize, usize) {
    WINDOW_BASE.with(|b| b.set(isize::MIN));
    let peak = PEAK.with(|p| p.get());
    let largest = LARGEST.with(|l| l.get());
    ((peak - baseline).max(0) as usize, largest)
}

// ---------------------------------------------------------------------------------------------
// Counting reader
// ---------------------------------------------------------------------------------------------

/// Wraps a `Read + Seek`, counting bytes delivered and operations served. When `budget` (bytes +
/// ops) is exhausted every further call fails, which forces a looping decoder out; the breach is
/// then the verdict (logical steps, not wall time).
pub struct CountingReader<R> {
    inner: R,
    pub bytes: u64,
    pub ops: u64,
    pub budget: u64,
    pub breached: bool,
}

impl<R> CountingReader<R> {
    pub fn new(inner: R, budget: u64) -> Self {
        CountingReader {
            inner,
            bytes: 0,
            ops: 0,
            budget,
            breached: false,
        }
    }
    pub fn work(&self) -> u64 {
        self.bytes + self.ops
    }
    fn check(&mut self) -> io::Result<()> {
        if self.bytes + self.ops > self.budget {
            self.breached = true;
            return Err(io::Error::new(
                io::ErrorKind::Other,
                "verif: reader work budget exhausted",
            ));
        }
        Ok(())
    }
}

impl<R: Read> Read for CountingReader<R> {
    fn read(&mut self, buf: &mut [u8]) -> io::Result<usize> {
        self.ops += 1;
        self.check()?;
        let n = self.inner.read(buf)?;
        self.bytes += n as u64;
        Ok(n)
    }
}

impl<R: Seek> Seek for CountingReader<R> {
    fn seek(&mut self, pos: SeekFrom) -> io::Result<u64> {
        self.ops += 1;
        self.check()?;
        self.inner.seek(pos)
    }
}

// ---------------------------------------------------------------------------------------------
// CPU-time progress watchdog (termination monitor where no logical-step hook exists)
// ---------------------------------------------------------------------------------------------
//
// Native code (libbz2) and loops that neither read nor allocate cannot be bounded by the counting
// reader.  Each worker publishes the case it is running; a watchdog thread reads the *CPU time of
// that thread* (not wall time, so machine load does not matter) and, when one case has consumed
// more than the budget, reports it as "does not terminate" with the case's input as witness.

pub struct CaseSlot {
    pub op: String,
    pub family: String,
    pub input: Vec<u8>,
    pub cpu_start_ns: u64,
    pub wall_start: Option<std::time::Instant>,
    pub active: bool,
}

struct Registered {
    clock: libc::clockid_t,
    slot: std::sync::Arc<std::sync::Mutex<CaseSlot>>,
    /// generic lane (every `catch`): a sequence number bumped per call and an active flag; the
    /// watchdog samples them, so the hot path reads no clock and takes no lock
    generic: std::sync::Arc<GenericLane>,
}

#[derive(Default)]
pub struct GenericLane {
    seq: std::sync::atomic::AtomicU64,
    active: std::sync::atomic::AtomicBool,
}

static REGISTRY: std::sync::Mutex<Vec<Registered>> = std::sync::Mutex::new(Vec::new());
pub static MAX_CASE_CPU_MS: std::sync::atomic::AtomicU64 = std::sync::atomic::AtomicU64::new(0);
/// Seconds of wall time after which a monitored call that has consumed (almost) no CPU time is
/// reported as blocked for good (a deadlock burns no CPU, so the CPU-time budget alone would never
/// fire).  0 = rule off: properties whose calls legitimately wait on the network (C15, C17, C18)
/// switch it off.  The rule needs BOTH a long wall time and a thread that is not being scheduled
/// because it is not runnable: a runnable thread on a loaded machine still accumulates CPU time.
pub static BLOCKED_AFTER_WALL_S: std::sync::atomic::AtomicU64 = std::sync::atomic::AtomicU64::new(0);
const BLOCKED_MAX_CPU_NS: u64 = 1_000_000_000;

thread_local! {
    static MY_SLOT: RefCell<Option<(libc::clockid_t, std::sync::Arc<std::sync::Mutex<CaseSlot>>)>> = const { RefCell::new(None) };
    static MY_GENERIC: RefCell<Option<std::sync::Arc<GenericLane>>> = const { RefCell::new(None) };
    static SPECIFIC_ACTIVE: Cell<bool> = const { Cell::new(false) };
}

fn ensure_registered() {
    MY_SLOT.with(|s| {
        let mut s = s.borrow_mut();
        if s.is_some() {
            return;
        }
        let mut clock: libc::clockid_t = 0;
        // SAFETY: pthread_self() is always valid for the calling thread.
        let rc = unsafe { libc::pthread_getcpuclockid(libc::pthread_self(), &mut clock) };
        if rc != 0 {
            return;
        }
        let slot = std::sync::Arc::new(std::sync::Mutex::new(CaseSlot {
            op: String::new(),
            family: String::new(),
            input: Vec::new(),
            cpu_start_ns: 0,
            wall_start: None,
            active: false,
        }));
        let generic = std::sync::Arc::new(GenericLane::default());
        if let Ok(mut r) = REGISTRY.lock() {
            r.push(Registered { clock, slot: slot.clone(), generic: generic.clone() });
        }
        MY_CLOCK.with(|k| k.set(clock as i64));
        MY_GENERIC.with(|g| *g.borrow_mut() = Some(generic));
        *s = Some((clock, slot));
    });
}

/// Generic lane: called by `catch` around every monitored call.
fn generic_begin() {
    ensure_registered();
    MY_GENERIC.with(|g| {
        if let Some(g) = g.borrow().as_ref() {
            g.seq.fetch_add(1, std::sync::atomic::Ordering::Relaxed);
            g.active.store(true, std::sync::atomic::Ordering::Release);
        }
    });
}

fn generic_end() {
    MY_GENERIC.with(|g| {
        if let Some(g) = g.borrow().as_ref() {
            g.active.store(false, std::sync::atomic::Ordering::Release);
        }
    });
}

fn clock_ns(clock: libc::clockid_t) -> u64 {
    let mut ts = libc::timespec { tv_sec: 0, tv_nsec: 0 };
    // SAFETY: plain syscall writing into a local timespec.
    let rc = unsafe { libc::clock_gettime(clock, &mut ts) };
    if rc != 0 {
        return 0;
    }
    ts.tv_sec as u64 * 1_000_000_000 + ts.tv_nsec as u64
}

/// Publish the case this thread is about to run.
pub fn case_begin(op: &str, family: &str, input: &[u8]) {
    ensure_registered();
    SPECIFIC_ACTIVE.with(|a| a.set(true));
    MY_SLOT.with(|s| {
        if let Some((clock, slot)) = s.borrow().as_ref() {
            if let Ok(mut g) = slot.lock() {
                g.op.clear();
                g.op.push_str(op);
                g.family.clear();
                g.family.push_str(family);
                g.input.clear();
                g.input.extend_from_slice(&input[..input.len().min(1 << 20)]);
                g.cpu_start_ns = clock_ns(*clock);
                g.wall_start = Some(std::time::Instant::now());
                g.active = true;
            }
        }
    });
}

/// Whether this thread currently has a published, specific case (C04/C06 style).
pub fn case_active() -> bool {
    SPECIFIC_ACTIVE.with(|a| a.get())
}

pub fn case_end() {
    SPECIFIC_ACTIVE.with(|a| a.set(false));
    MY_SLOT.with(|s| {
        if let Some((clock, slot)) = s.borrow().as_ref() {
            if let Ok(mut g) = slot.lock() {
                let used = clock_ns(*clock).saturating_sub(g.cpu_start_ns) / 1_000_000;
                MAX_CASE_CPU_MS.fetch_max(used, std::sync::atomic::Ordering::Relaxed);
                g.active = false;
            }
        }
    });
}

/// Start the watchdog.  `on_stuck(op, family, input, cpu_seconds)` is called once for the first
/// case that exceeds `budget_s` of CPU time; it is expected to report and exit the process.
pub fn start_cpu_watchdog(budget_s: u64, on_stuck: impl Fn(&str, &str, &[u8], u64) + Send + 'static) {
    std::thread::spawn(move || {
      let mut seen: Vec<(u64, u64, Option<std::time::Instant>)> = Vec::new();
      loop {
        std::thread::sleep(std::time::Duration::from_millis(200));
        let Ok(reg) = REGISTRY.lock() else { continue };
        let breach = MEM_BREACH_CLOCK.load(std::sync::atomic::Ordering::SeqCst);
        if breach != -1 {
            let bytes = MEM_BREACH_BYTES.load(std::sync::atomic::Ordering::SeqCst);
            for r in reg.iter() {
                if r.clock as i64 == breach {
                    if let Ok(g) = r.slot.lock() {
                        // cpu_seconds = u64::MAX marks "memory", the byte count goes in the op text
                        let op = format!("{}|MEM|{}", if g.active && !g.op.is_empty() { g.op.as_str() } else { "a monitored library call" }, bytes);
                        on_stuck(&op, &g.family, &g.input, u64::MAX);
                        return;
                    }
                }
            }
        }
        // generic lane: the same call (same sequence number) still active after `budget_s` of this
        // thread's CPU time has passed since the watchdog first saw it
        for (i, r) in reg.iter().enumerate() {
            if seen.len() <= i {
                seen.push((u64::MAX, 0, None));
            }
            if !r.generic.active.load(std::sync::atomic::Ordering::Acquire) {
                seen[i] = (u64::MAX, 0, None);
                continue;
            }
            let seq = r.generic.seq.load(std::sync::atomic::Ordering::Relaxed);
            let now = clock_ns(r.clock);
            let blocked_after = BLOCKED_AFTER_WALL_S.load(std::sync::atomic::Ordering::Relaxed);
            if seen[i].0 != seq {
                seen[i] = (seq, now, Some(std::time::Instant::now()));
            } else if now.saturating_sub(seen[i].1) > budget_s * 1_000_000_000 {
                on_stuck("a monitored call into the library", "", &[], now.saturating_sub(seen[i].1) / 1_000_000_000);
                return;
            } else if blocked_after > 0
                && seen[i].2.map(|w| w.elapsed().as_secs() >= blocked_after).unwrap_or(false)
                && now.saturating_sub(seen[i].1) < BLOCKED_MAX_CPU_NS
            {
                on_stuck(&format!("a monitored call into the library|BLOCKED|{}", blocked_after), "", &[], 0);
                return;
            }
        }
        for r in reg.iter() {
            let Ok(g) = r.slot.lock() else { continue };
            if !g.active {
                continue;
            }
            let used_ns = clock_ns(r.clock).saturating_sub(g.cpu_start_ns);
            if used_ns > budget_s * 1_000_000_000 {
                on_stuck(&g.op, &g.family, &g.input, used_ns / 1_000_000_000);
                return;
            }
            let blocked_after = BLOCKED_AFTER_WALL_S.load(std::sync::atomic::Ordering::Relaxed);
            if blocked_after > 0 && used_ns < BLOCKED_MAX_CPU_NS && g.wall_start.map(|w| w.elapsed().as_secs() >= blocked_after).unwrap_or(false) {
                on_stuck(&format!("{}|BLOCKED|{}", g.op, blocked_after), &g.family, &g.input, 0);
                return;
            }
        }
      }
    });
}

// ---------------------------------------------------------------------------------------------
// Dribble reader: legal short reads
// ---------------------------------------------------------------------------------------------

/// A `Read + Seek` that hands out at most a few bytes per `read` call (sizes cycle through a
/// seed-derived pattern).  `Read::read` may legally return fewer bytes than asked for; a decoder
/// that is correct only when every read is filled completely (`read` used where `read_exact` is
/// meant) gives different results through this reader than through a slice.
pub struct DribbleReader<R> {
    inner: R,
    pattern: [usize; 8],
    at: usize,
}

impl<R> DribbleReader<R> {
    pub fn new(inner: R, seed: u64) -> Self {
        let mut pattern = [1usize; 8];
        let mut x = seed | 1;
        for p in pattern.iter_mut() {
            x = x.wrapping_mul(6364136223846793005).wrapping_add(1442695040888963407);
            *p = match (x >> 33) % 6 {
                0 => 1,
                1 => 2,
                2 => 3,
                3 => 7,
                4 => 23,
                _ => 45,
            };
        }
        DribbleReader { inner, pattern, at: 0 }
    }

    /// Same type, but every read is passed through unchanged.
    pub fn passthrough(inner: R) -> Self {
        DribbleReader { inner, pattern: [usize::MAX; 8], at: 0 }
    }
}

impl<R: Read> Read for DribbleReader<R> {
    fn read(&mut self, buf: &mut [u8]) -> io::Result<usize> {
        if buf.is_empty() {
            return Ok(0);
        }
        let n = self.pattern[self.at % 8].min(buf.len());
        self.at += 1;
        self.inner.read(&mut buf[..n])
    }
}

/// A `Read + Seek` that returns short reads like `DribbleReader` and, once, when the stream
/// position reaches `fail_at`, a *transient* error (`WouldBlock`, `TimedOut` or `Interrupted`) -
/// what a socket with a read timeout or a non-blocking source does.  After the error it goes on
/// delivering from where it stopped.  A decoder may give up (an error) or resume correctly (the
/// same value as from a clean reader); what it must not do is start over and return a value
/// decoded from bytes that are not at their offsets.
pub struct FlakyReader<R> {
    inner: R,
    pos: u64,
    fail_at: u64,
    kind: io::ErrorKind,
    failed: bool,
    step: usize,
}

impl<R> FlakyReader<R> {
    pub fn new(inner: R, fail_at: u64, kind_selector: u64) -> Self {
        let kind = match kind_selector % 3 {
            0 => io::ErrorKind::WouldBlock,
            1 => io::ErrorKind::TimedOut,
            _ => io::ErrorKind::Interrupted,
        };
        FlakyReader { inner, pos: 0, fail_at, kind, failed: false, step: 1 + (kind_selector / 3 % 40) as usize }
    }
    pub fn kind(&self) -> io::ErrorKind {
        self.kind
    }
    pub fn has_failed(&self) -> bool {
        self.failed
    }
}

impl<R: Read> Read for FlakyReader<R> {
    fn read(&mut self, buf: &mut [u8]) -> io::Result<usize> {
        if buf.is_empty() {
            return Ok(0);
        }
        if !self.failed && self.pos >= self.fail_at {
            self.failed = true;
            return Err(io::Error::new(self.kind, "transient failure injected by the harness"));
        }
        let mut n = self.step.min(buf.len());
        if !self.failed {
            n = n.min((self.fail_at - self.pos) as usize).max(1);
        }
        let got = self.inner.read(&mut buf[..n])?;
        self.pos += got as u64;
        Ok(got)
    }
}

impl<R: Seek> Seek for FlakyReader<R> {
    fn seek(&mut self, pos: SeekFrom) -> io::Result<u64> {
        let p = self.inner.seek(pos)?;
        self.pos = p;
        Ok(p)
    }
}

impl<R: Seek> Seek for DribbleReader<R> {
    fn seek(&mut self, pos: SeekFrom) -> io::Result<u64> {
        self.inner.seek(pos)
    }
}
