//! Process-level monitors: panic capture, per-thread counting allocator, counting reader.

use std::alloc::{GlobalAlloc, Layout, System};
use std::cell::{Cell, RefCell};
use std::io::{self, Read, Seek, SeekFrom};
use std::panic::{catch_unwind, AssertUnwindSafe};

// ---------------------------------------------------------------------------------------------
// Panic capture
// ---------------------------------------------------------------------------------------------

#[derive(Clone, Debug)]
pub struct PanicInfo {
    pub message: String,
    pub file: String,
    pub line: u32,
}

impl PanicInfo {
    /// Signature = file (path inside the repository, or crate-relative for dependencies) plus the
    /// message with every digit run collapsed, so that the same defect on different inputs has
    /// one signature while a different panic site or message does not.
    pub fn signature(&self) -> String {
        let mut stem = String::new();
        let mut last_digit = false;
        for c in self.message.chars() {
            if stem.chars().count() >= 40 {
                break;
            }
            if c.is_ascii_digit() {
                if !last_digit {
                    stem.push('#');
                }
                last_digit = true;
            } else {
                stem.push(c);
                last_digit = false;
            }
        }
        format!("panic@{}:{}", short_file(&self.file), stem)
    }
}

pub fn short_file(f: &str) -> String {
    if let Some(i) = f.find("/nexrad") {
        // /repo/nexrad-decode/src/... -> nexrad-decode/src/...
        let tail = &f[i + 1..];
        return tail.to_string();
    }
    if let Some(i) = f.find("registry/src/") {
        let tail = &f[i + "registry/src/".len()..];
        if let Some(j) = tail.find('/') {
            return tail[j + 1..].to_string();
        }
    }
    f.to_string()
}

thread_local! {
    static LAST_PANIC: RefCell<Option<PanicInfo>> = const { RefCell::new(None) };
    static CAPTURING: Cell<bool> = const { Cell::new(false) };
}

pub fn install_panic_hook() {
    let default = std::panic::take_hook();
    std::panic::set_hook(Box::new(move |info| {
        let capturing = CAPTURING.with(|c| c.get());
        if capturing {
            let message = if let Some(s) = info.payload().downcast_ref::<&str>() {
                s.to_string()
            } else if let Some(s) = info.payload().downcast_ref::<String>() {
                s.clone()
            } else {
                "<non-string panic payload>".to_string()
            };
            let (file, line) = info
                .location()
                .map(|l| (l.file().to_string(), l.line()))
                .unwrap_or_else(|| ("<unknown>".to_string(), 0));
            LAST_PANIC.with(|p| {
                *p.borrow_mut() = Some(PanicInfo {
                    message,
                    file,
                    line,
                })
            });
        } else {
            default(info);
        }
    }));
}

/// Run `f`, converting a panic into `Err(PanicInfo)`.
pub fn catch<T>(f: impl FnOnce() -> T) -> Result<T, PanicInfo> {
    let prev = CAPTURING.with(|c| c.replace(true));
    LAST_PANIC.with(|p| *p.borrow_mut() = None);
    // every monitored call is also a case of the CPU-time termination monitor, unless the caller
    // has already published a more specific one (C04/C06 publish the input bytes)
    let publish = !case_active();
    if publish {
        generic_begin();
    }
    // ... and of the memory monitor: unless the caller measures a window of its own (C04), the
    // call may not hold more than HARD_CAP_BYTES above what this thread held when it began.  A
    // library call that grows without bound is then parked and reported by the watchdog instead of
    // the operating system killing the process (which would leave no verdict).
    ensure_registered();
    let own_window = WINDOW_BASE.with(|b| {
        if b.get() == isize::MIN {
            b.set(CUR.with(|c| c.get()));
            true
        } else {
            false
        }
    });
    let r = catch_unwind(AssertUnwindSafe(f));
    if own_window {
        WINDOW_BASE.with(|b| b.set(isize::MIN));
    }
    if publish {
        generic_end();
    }
    CAPTURING.with(|c| c.set(prev));
    match r {
        Ok(v) => Ok(v),
        Err(_) => Err(LAST_PANIC.with(|p| p.borrow_mut().take()).unwrap_or(PanicInfo {
            message: "<panic without hook info>".into(),
            file: "<unknown>".into(),
            line: 0,
        })),
    }
}

// ---------------------------------------------------------------------------------------------
// Counting allocator (per-thread current / peak)
// ---------------------------------------------------------------------------------------------

pub struct CountingAlloc;

/// Hard cap on what one monitored call may hold above its baseline.  Far above any bound a
/// property states (the decoders' bound is 24 MiB + 64 n); its only purpose is to turn "the
/// operating system killed the process for lack of memory" into a reportable observation: the
/// offending thread is parked inside the allocator and the watchdog thread reports the case.
pub const HARD_CAP_BYTES: isize = 2 << 30;
pub static MEM_BREACH_CLOCK: std::sync::atomic::AtomicI64 = std::sync::atomic::AtomicI64::new(-1);
pub static MEM_BREACH_BYTES: std::sync::atomic::AtomicU64 = std::sync::atomic::AtomicU64::new(0);

thread_local! {
    /// Baseline of the active measurement window on this thread (isize::MIN = no window).
    static WINDOW_BASE: Cell<isize> = const { Cell::new(isize::MIN) };
    static MY_CLOCK: Cell<i64> = const { Cell::new(-1) };
    static CUR: Cell<isize> = const { Cell::new(0) };
    static PEAK: Cell<isize> = const { Cell::new(0) };
    static ALLOCS: Cell<u64> = const { Cell::new(0) };
    static LARGEST: Cell<usize> = const { Cell::new(0) };
}

#[inline]
fn on_alloc(size: usize) {
    let _ = CUR.try_with(|c| {
        let v = c.get() + size as isize;
        c.set(v);
        let base = WINDOW_BASE.try_with(|b| b.get()).unwrap_or(isize::MIN);
        if base != isize::MIN && v - base > HARD_CAP_BYTES {
            // park this thread (no allocation, no locks held) and let the watchdog report
            let clock = MY_CLOCK.try_with(|k| k.get()).unwrap_or(-1);
            MEM_BREACH_BYTES.store((v - base) as u64, std::sync::atomic::Ordering::SeqCst);
            MEM_BREACH_CLOCK.store(clock, std::sync::atomic::Ordering::SeqCst);
            loop {
                std::thread::sleep(std::time::Duration::from_secs(3600));
            }
        }
        let _ = PEAK.try_with(|p| {
            if v > p.get() {
                p.set(v)
            }
        });
    });
    let _ = ALLOCS.try_with(|a| a.set(a.get() + 1));
    let _ = LARGEST.try_with(|l| {
        if size > l.get() {
            l.set(size)
        }
    });
}

#[inline]
fn on_dealloc(size: usize) {
    let _ = CUR.try_with(|c| c.set(c.get() - size as isize));
}

unsafe impl GlobalAlloc for CountingAlloc {
    unsafe fn alloc(&self, layout: Layout) -> *mut u8 {
        let p = System.alloc(layout);
        if !p.is_null() {
            on_alloc(layout.size());
        }
        p
    }
    unsafe fn alloc_zeroed(&self, layout: Layout) -> *mut u8 {
        let p = System.alloc_zeroed(layout);
        if !p.is_null() {
            on_alloc(layout.size());
        }
        p
    }
    unsafe fn dealloc(&self, ptr: *mut u8, layout: Layout) {
        System.dealloc(ptr, layout);
        on_dealloc(layout.size());
    }
    unsafe fn realloc(&self, ptr: *mut u8, layout: Layout, new_size: usize) -> *mut u8 {
        let p = System.realloc(ptr, layout, new_size);
        if !p.is_null() {
            on_dealloc(layout.size());
            on_alloc(new_size);
        }
        p
    }
}

/// Start a measurement window on this thread: peak := current, largest := 0.
pub fn alloc_window_begin() -> isize {
    let cur = CUR.with(|c| c.get());
    WINDOW_BASE.with(|b| b.set(cur));
    PEAK.with(|p| p.set(cur));
    LARGEST.with(|l| l.set(0));
    cur
}

/// Peak bytes above the baseline returned by `alloc_window_begin`, and the largest single request.
pub fn alloc_window_end(baseline: isize) -> (usize, usize) {
    WINDOW_BASE.with(|b| b.set(isize::MIN));
    let peak = PEAK.with(|p| p.get());
    let largest = LARGEST.with(|l| l.get());
    ((peak - baseline).max(0) as usize, largest)
}

// ---------------------------------------------------------------------------------------------
// Counting reader
// ---------------------------------------------------------------------------------------------

/// Wraps a `Read + Seek`, counting bytes delivered and operations served. When `budget` (bytes +
/// ops) is exhausted every further call fails, which forces a looping decoder out; the breach is
/// then the verdict (logical steps, not wall time).
pub struct CountingReader<R> {
    inner: R,
    pub bytes: u64,
    pub ops: u64,
    pub budget: u64,
    pub breached: bool,
}

impl<R> CountingReader<R> {
    pub fn new(inner: R, budget: u64) -> Self {
        CountingReader {
            inner,
            bytes: 0,
            ops: 0,
            budget,
            breached: false,
        }
    }
    pub fn work(&self) -> u64 {
        self.bytes + self.ops
    }
    fn check(&mut self) -> io::Result<()> {
        if self.bytes + self.ops > self.budget {
            self.breached = true;
            return Err(io::Error::new(
                io::ErrorKind::Other,
                "verif: reader work budget exhausted",
            ));
        }
        Ok(())
    }
}

impl<R: Read> Read for CountingReader<R> {
    fn read(&mut self, buf: &mut [u8]) -> io::Result<usize> {
        self.ops += 1;
        self.check()?;
        let n = self.inner.read(buf)?;
        self.bytes += n as u64;
        Ok(n)
    }
}

impl<R: Seek> Seek for CountingReader<R> {
    fn seek(&mut self, pos: SeekFrom) -> io::Result<u64> {
        self.ops += 1;
        self.check()?;
        self.inner.seek(pos)
    }
}

// ---------------------------------------------------------------------------------------------
// CPU-time progress watchdog (termination monitor where no logical-step hook exists)
// ---------------------------------------------------------------------------------------------
//
// Native code (libbz2) and loops that neither read nor allocate cannot be bounded by the counting
// reader.  Each worker publishes the case it is running; a watchdog thread reads the *CPU time of
// that thread* (not wall time, so machine load does not matter) and, when one case has consumed
// more than the budget, reports it as "does not terminate" with the case's input as witness.

pub struct CaseSlot {
    pub op: String,
    pub family: String,
    pub input: Vec<u8>,
    pub cpu_start_ns: u64,
    pub wall_start: Option<std::time::Instant>,
    pub active: bool,
}

struct Registered {
    clock: libc::clockid_t,
    slot: std::sync::Arc<std::sync::Mutex<CaseSlot>>,
    /// generic lane (every `catch`): a sequence number bumped per call and an active flag; the
    /// watchdog samples them, so the hot path reads no clock and takes no lock
    generic: std::sync::Arc<GenericLane>,
}

#[derive(Default)]
pub struct GenericLane {
    seq: std::sync::atomic::AtomicU64,
    active: std::sync::atomic::AtomicBool,
}

static REGISTRY: std::sync::Mutex<Vec<Registered>> = std::sync::Mutex::new(Vec::new());
pub static MAX_CASE_CPU_MS: std::sync::atomic::AtomicU64 = std::sync::atomic::AtomicU64::new(0);
/// Seconds of wall time after which a monitored call that has consumed (almost) no CPU time is
/// reported as blocked for good (a deadlock burns no CPU, so the CPU-time budget alone would never
/// fire).  0 = rule off: properties whose calls legitimately wait on the network (C15, C17, C18)
/// switch it off.  The rule needs BOTH a long wall time and a thread that is not being scheduled
/// because it is not runnable: a runnable thread on a loaded machine still accumulates CPU time.
pub static BLOCKED_AFTER_WALL_S: std::sync::atomic::AtomicU64 = std::sync::atomic::AtomicU64::new(0);
const BLOCKED_MAX_CPU_NS: u64 = 1_000_000_000;

thread_local! {
    static MY_SLOT: RefCell<Option<(libc::clockid_t, std::sync::Arc<std::sync::Mutex<CaseSlot>>)>> = const { RefCell::new(None) };
    static MY_GENERIC: RefCell<Option<std::sync::Arc<GenericLane>>> = const { RefCell::new(None) };
    static SPECIFIC_ACTIVE: Cell<bool> = const { Cell::new(false) };
}

fn ensure_registered() {
    MY_SLOT.with(|s| {
        let mut s = s.borrow_mut();
        if s.is_some() {
            return;
        }
        let mut clock: libc::clockid_t = 0;
        // SAFETY: pthread_self() is always valid for the calling thread.
        let rc = unsafe { libc::pthread_getcpuclockid(libc::pthread_self(), &mut clock) };
        if rc != 0 {
            return;
        }
        let slot = std::sync::Arc::new(std::sync::Mutex::new(CaseSlot {
            op: String::new(),
            family: String::new(),
            input: Vec::new(),
            cpu_start_ns: 0,
            wall_start: None,
            active: false,
        }));
        let generic = std::sync::Arc::new(GenericLane::default());
        if let Ok(mut r) = REGISTRY.lock() {
            r.push(Registered { clock, slot: slot.clone(), generic: generic.clone() });
        }
        MY_CLOCK.with(|k| k.set(clock as i64));
        MY_GENERIC.with(|g| *g.borrow_mut() = Some(generic));
        *s = Some((clock, slot));
    });
}

/// Generic lane: called by `catch` around every monitored call.
fn generic_begin() {
    ensure_registered();
    MY_GENERIC.with(|g| {
        if let Some(g) = g.borrow().as_ref() {
            g.seq.fetch_add(1, std::sync::atomic::Ordering::Relaxed);
            g.active.store(true, std::sync::atomic::Ordering::Release);
        }
    });
}

fn generic_end() {
    MY_GENERIC.with(|g| {
        if let Some(g) = g.borrow().as_ref() {
            g.active.store(false, std::sync::atomic::Ordering::Release);
        }
    });
}

fn clock_ns(clock: libc::clockid_t) -> u64 {
    let mut ts = libc::timespec { tv_sec: 0, tv_nsec: 0 };
    // SAFETY: plain syscall writing into a local timespec.
    let rc = unsafe { libc::clock_gettime(clock, &mut ts) };
    if rc != 0 {
        return 0;
    }
    ts.tv_sec as u64 * 1_000_000_000 + ts.tv_nsec as u64
}

/// Publish the case this thread is about to run.
pub fn case_begin(op: &str, family: &str, input: &[u8]) {
    ensure_registered();
    SPECIFIC_ACTIVE.with(|a| a.set(true));
    MY_SLOT.with(|s| {
        if let Some((clock, slot)) = s.borrow().as_ref() {
            if let Ok(mut g) = slot.lock() {
                g.op.clear();
                g.op.push_str(op);
                g.family.clear();
                g.family.push_str(family);
                g.input.clear();
                g.input.extend_from_slice(&input[..input.len().min(1 << 20)]);
                g.cpu_start_ns = clock_ns(*clock);
                g.wall_start = Some(std::time::Instant::now());
                g.active = true;
            }
        }
    });
}

/// Whether this thread currently has a published, specific case (C04/C06 style).
pub fn case_active() -> bool {
    SPECIFIC_ACTIVE.with(|a| a.get())
}

pub fn case_end() {
    SPECIFIC_ACTIVE.with(|a| a.set(false));
    MY_SLOT.with(|s| {
        if let Some((clock, slot)) = s.borrow().as_ref() {
            if let Ok(mut g) = slot.lock() {
                let used = clock_ns(*clock).saturating_sub(g.cpu_start_ns) / 1_000_000;
                MAX_CASE_CPU_MS.fetch_max(used, std::sync::atomic::Ordering::Relaxed);
                g.active = false;
            }
        }
    });
}

/// Start the watchdog.  `on_stuck(op, family, input, cpu_seconds)` is called once for the first
/// case that exceeds `budget_s` of CPU time; it is expected to report and exit the process.
pub fn start_cpu_watchdog(budget_s: u64, on_stuck: impl Fn(&str, &str, &[u8], u64) + Send + 'static) {
    std::thread::spawn(move || {
      let mut seen: Vec<(u64, u64, Option<std::time::Instant>)> = Vec::new();
      loop {
        std::thread::sleep(std::time::Duration::from_millis(200));
        let Ok(reg) = REGISTRY.lock() else { continue };
        let breach = MEM_BREACH_CLOCK.load(std::sync::atomic::Ordering::SeqCst);
        if breach != -1 {
            let bytes = MEM_BREACH_BYTES.load(std::sync::atomic::Ordering::SeqCst);
            for r in reg.iter() {
                if r.clock as i64 == breach {
                    if let Ok(g) = r.slot.lock() {
                        // cpu_seconds = u64::MAX marks "memory", the byte count goes in the op text
                        let op = format!("{}|MEM|{}", if g.active && !g.op.is_empty() { g.op.as_str() } else { "a monitored library call" }, bytes);
                        on_stuck(&op, &g.family, &g.input, u64::MAX);
                        return;
                    }
                }
            }
        }
        // generic lane: the same call (same sequence number) still active after `budget_s` of this
        // thread's CPU time has passed since the watchdog first saw it
        for (i, r) in reg.iter().enumerate() {
            if seen.len() <= i {
                seen.push((u64::MAX, 0, None));
            }
            if !r.generic.active.load(std::sync::atomic::Ordering::Acquire) {
                seen[i] = (u64::MAX, 0, None);
                continue;
            }
            let seq = r.generic.seq.load(std::sync::atomic::Ordering::Relaxed);
            let now = clock_ns(r.clock);
            let blocked_after = BLOCKED_AFTER_WALL_S.load(std::sync::atomic::Ordering::Relaxed);
            if seen[i].0 != seq {
                seen[i] = (seq, now, Some(std::time::Instant::now()));
            } else if now.saturating_sub(seen[i].1) > budget_s * 1_000_000_000 {
                on_stuck("a monitored call into the library", "", &[], now.saturating_sub(seen[i].1) / 1_000_000_000);
                return;
            } else if blocked_after > 0
                && seen[i].2.map(|w| w.elapsed().as_secs() >= blocked_after).unwrap_or(false)
                && now.saturating_sub(seen[i].1) < BLOCKED_MAX_CPU_NS
            {
                on_stuck(&format!("a monitored call into the library|BLOCKED|{}", blocked_after), "", &[], 0);
                return;
            }
        }
        for r in reg.iter() {
            let Ok(g) = r.slot.lock() else { continue };
            if !g.active {
                continue;
            }
            let used_ns = clock_ns(r.clock).saturating_sub(g.cpu_start_ns);
            if used_ns > budget_s * 1_000_000_000 {
                on_stuck(&g.op, &g.family, &g.input, used_ns / 1_000_000_000);
                return;
            }
            let blocked_after = BLOCKED_AFTER_WALL_S.load(std::sync::atomic::Ordering::Relaxed);
            if blocked_after > 0 && used_ns < BLOCKED_MAX_CPU_NS && g.wall_start.map(|w| w.elapsed().as_secs() >= blocked_after).unwrap_or(false) {
                on_stuck(&format!("{}|BLOCKED|{}", g.op, blocked_after), &g.family, &g.input, 0);
                return;
            }
        }
      }
    });
}

// ---------------------------------------------------------------------------------------------
// Dribble reader: legal short reads
// ---------------------------------------------------------------------------------------------

/// A `Read + Seek` that hands out at most a few bytes per `read` call (sizes cycle through a
/// seed-derived pattern).  `Read::read` may legally return fewer bytes than asked for; a decoder
/// that is correct only when every read is filled completely (`read` used where `read_exact` is
/// meant) gives different results through this reader than through a slice.
pub struct DribbleReader<R> {
    inner: R,
    pattern: [usize; 8],
    at: usize,
}

impl<R> DribbleReader<R> {
    pub fn new(inner: R, seed: u64) -> Self {
        let mut pattern = [1usize; 8];
        let mut x = seed | 1;
        for p in pattern.iter_mut() {
            x = x.wrapping_mul(6364136223846793005).wrapping_add(1442695040888963407);
            *p = match (x >> 33) % 6 {
                0 => 1,
                1 => 2,
                2 => 3,
                3 => 7,
                4 => 23,
                _ => 45,
            };
        }
        DribbleReader { inner, pattern, at: 0 }
    }

    /// Same type, but every read is passed through unchanged.
    pub fn passthrough(inner: R) -> Self {
        DribbleReader { inner, pattern: [usize::MAX; 8], at: 0 }
    }
}

impl<R: Read> Read for DribbleReader<R> {
    fn read(&mut self, buf: &mut [u8]) -> io::Result<usize> {
        if buf.is_empty() {
            return Ok(0);
        }
        let n = self.pattern[self.at % 8].min(buf.len());
        self.at += 1;
        self.inner.read(&mut buf[..n])
    }
}

/// A `Read + Seek` that returns short reads like `DribbleReader` and, once, when the stream
/// position reaches `fail_at`, a *transient* error (`WouldBlock`, `TimedOut` or `Interrupted`) -
/// what a socket with a read timeout or a non-blocking source does.  After the error it goes on
/// delivering from where it stopped.  A decoder may give up (an error) or resume correctly (the
/// same value as from a clean reader); what it must not do is start over and return a value
/// decoded from bytes that are not at their offsets.
pub struct FlakyReader<R> {
    inner: R,
    pos: u64,
    fail_at: u64,
    kind: io::ErrorKind,
    failed: bool,
    step: usize,
}

impl<R> FlakyReader<R> {
    pub fn new(inner: R, fail_at: u64, kind_selector: u64) -> Self {
        let kind = match kind_selector % 3 {
            0 => io::ErrorKind::WouldBlock,
            1 => io::ErrorKind::TimedOut,
            _ => io::ErrorKind::Interrupted,
        };
        FlakyReader { inner, pos: 0, fail_at, kind, failed: false, step: 1 + (kind_selector / 3 % 40) as usize }
    }
    pub fn kind(&self) -> io::ErrorKind {
        self.kind
    }
    pub fn has_failed(&self) -> bool {
        self.failed
    }
}

impl<R: Read> Read for FlakyReader<R> {
    fn read(&mut self, buf: &mut [u8]) -> io::Result<usize> {
        if buf.is_empty() {
            return Ok(0);
        }
        if !self.failed && self.pos >= self.fail_at {
            self.failed = true;
            return Err(io::Error::new(self.kind, "transient failure injected by the harness"));
        }
        let mut n = self.step.min(buf.len());
        if !self.failed {
            n = n.min((self.fail_at - self.pos) as usize).max(1);
        }
        let got = self.inner.read(&mut buf[..n])?;
        self.pos += got as u64;
        Ok(got)
    }
}

impl<R: Seek> Seek for FlakyReader<R> {
    fn seek(&mut self, pos: SeekFrom) -> io::Result<u64> {
        let p = self.inner.seek(pos)?;
        self.pos = p;
        Ok(p)
    }
}

impl<R: Seek> Seek for DribbleReader<R> {
    fn seek(&mut self, pos: SeekFrom) -> io::Result<u64> {
        self.inner.seek(pos)
    }
}
