//! Loopback S3 simulator: one tiny_http server per process, requests routed to per-site scopes
//! (each scenario owns a unique site id), every request logged by the scope that answers it.

use std::collections::HashMap;
use std::sync::atomic::{AtomicU64, Ordering};
use std::sync::{Arc, Mutex, OnceLock};

pub const REALTIME_BUCKET: &str = "unidata-nexrad-level2-chunks";
pub const ARCHIVE_BUCKET: &str = "noaa-nexrad-level2";

#[derive(Clone, Debug)]
pub struct Req {
    pub n: u64,
    pub raw: String,
    pub bucket: String,
    /// Object key for GET-object requests (percent-decoded), None for bucket listings.
    pub key: Option<String>,
    /// Key exactly as it appeared on the wire (still percent-encoded).
    pub raw_key: Option<String>,
    pub query: Vec<(String, String)>,
}

impl Req {
    pub fn q(&self, name: &str) -> Option<&str> {
        self.query
            .iter()
            .find(|(k, _)| k == name)
            .map(|(_, v)| v.as_str())
    }
    pub fn is_list(&self) -> bool {
        self.key.is_none()
    }
}

#[derive(Clone, Debug)]
pub struct Resp {
    pub status: u16,
    pub headers: Vec<(String, String)>,
    pub body: Vec<u8>,
}

impl Resp {
    pub fn status(status: u16) -> Self {
        Resp {
            status,
            headers: vec![],
            body: format!("<Error><Code>{}</Code></Error>", status).into_bytes(),
        }
    }
    /// Not an HTTP response at all: the bytes are written to the socket as they are (status 999 is
    /// the marker the serve loop looks for).  The client sees a transport-level failure.
    pub fn broken_transport() -> Self {
        Resp { status: 999, headers: vec![], body: b"\x00\x01garbage that is not HTTP\r\n\r\n".to_vec() }
    }
    /// A reply that promises `missing` more body bytes than it delivers and then closes the
    /// connection: a download cut short after part of the body has arrived (status 998 is the
    /// marker; the serve loop redirects the client to the raw fault port, which plays it out).
    pub fn cut_short(body: Vec<u8>, missing: usize) -> Self {
        Resp { status: 998, headers: vec![("X-Missing".into(), missing.to_string())], body }
    }
    /// A 200 reply that delivers its head and the first `body` bytes, then holds the connection
    /// open without sending the `missing` rest (for up to three seconds, or until the client goes
    /// away): a transfer that stalls mid-body, as seen by a caller who gives up on it (status 997).
    pub fn stalled(body: Vec<u8>, missing: usize) -> Self {
        Resp { status: 997, headers: vec![("X-Missing".into(), missing.to_string())], body }
    }
    /// `inner`, but not before the returned gate has been opened (or ten seconds have passed): a
    /// request that stays in flight while the harness does something else (status 996).
    pub fn held(inner: Resp) -> (Self, Arc<HoldGate>) {
        let gate = Arc::new(HoldGate { open: Mutex::new(false), cv: std::sync::Condvar::new() });
        let id = HOLD_IDS.fetch_add(1, Ordering::SeqCst);
        if let Ok(mut m) = holds().lock() {
            m.insert(id, (gate.clone(), inner));
        }
        (Resp { status: 996, headers: vec![("X-Hold".into(), id.to_string())], body: Vec::new() }, gate)
    }
    pub fn xml(body: String) -> Self {
        Resp {
            status: 200,
            headers: vec![("Content-Type".into(), "application/xml".into())],
            body: body.into_bytes(),
        }
    }
    pub fn object(body: Vec<u8>, last_modified_rfc2822: Option<String>) -> Self {
        let mut headers = vec![("Content-Type".into(), "binary/octet-stream".into())];
        if let Some(lm) = last_modified_rfc2822 {
            headers.push(("Last-Modified".into(), lm));
        }
        Resp {
            status: 200,
            headers,
            body,
        }
    }
}

pub struct HoldGate {
    open: Mutex<bool>,
    cv: std::sync::Condvar,
}
impl HoldGate {
    pub fn release(&self) {
        if let Ok(mut g) = self.open.lock() {
            *g = true;
        }
        self.cv.notify_all();
    }
    fn wait(&self) {
        let Ok(mut g) = self.open.lock() else { return };
        let t0 = std::time::Instant::now();
        while !*g && t0.elapsed() < std::time::Duration::from_secs(10) {
            match self.cv.wait_timeout(g, std::time::Duration::from_millis(200)) {
                Ok((ng, _)) => g = ng,
                Err(_) => return,
            }
        }
    }
}
static HOLD_IDS: AtomicU64 = AtomicU64::new(1);
fn holds() -> &'static Mutex<HashMap<u64, (Arc<HoldGate>, Resp)>> {
    static HOLDS: OnceLock<Mutex<HashMap<u64, (Arc<HoldGate>, Resp)>>> = OnceLock::new();
    HOLDS.get_or_init(|| Mutex::new(HashMap::new()))
}

pub trait Scope: Send {
    fn handle(&mut self, req: &Req) -> Resp;
}

pub struct Sim {
    pub port: u16,
    scopes: Mutex<HashMap<String, Arc<Mutex<dyn Scope>>>>,
    counter: AtomicU64,
    pub unrouted: AtomicU64,
}

pub fn percent_decode(s: &str) -> String {
    let b = s.as_bytes();
    let mut out = Vec::with_capacity(b.len());
    let mut i = 0;
    while i < b.len() {
        if b[i] == b'%' && i + 2 < b.len() {
            let h = (b[i + 1] as char).to_digit(16);
            let l = (b[i + 2] as char).to_digit(16);
            if let (Some(h), Some(l)) = (h, l) {
                out.push((h * 16 + l) as u8);
                i += 3;
                continue;
            }
        }
        out.push(b[i]);
        i += 1;
    }
    String::from_utf8_lossy(&out).to_string()
}

pub fn parse_url(raw: &str, n: u64) -> Req {
    let (path, query) = match raw.split_once('?') {
        Some((p, q)) => (p, q),
        None => (raw, ""),
    };
    let path = path.trim_start_matches('/');
    let (bucket, key) = match path.split_once('/') {
        Some((b, k)) if !k.is_empty() => (b.to_string(), Some(k.to_string())),
        Some((b, _)) => (b.to_string(), None),
        None => (path.to_string(), None),
    };
    let query = query
        .split('&')
        .filter(|s| !s.is_empty())
        .map(|kv| match kv.split_once('=') {
            Some((k, v)) => (percent_decode(k), percent_decode(&v.replace('+', " "))),
            None => (percent_decode(kv), String::new()),
        })
        .collect();
    Req {
        n,
        raw: raw.to_string(),
        bucket,
        raw_key: key.clone(),
        key: key.map(|k| percent_decode(&k)),
        query,
    }
}

/// Site a request belongs to (scenario routing key).
pub fn site_of(req: &Req) -> Option<String> {
    let text = match &req.key {
        Some(k) => k.clone(),
        None => req.q("prefix")?.to_string(),
    };
    let mut segs = text.split('/');
    if req.bucket == ARCHIVE_BUCKET {
        // YYYY/MM/DD/SITE...
        segs.nth(3).map(|s| s.chars().take(4).collect())
    } else {
        segs.next().map(|s| s.to_string())
    }
}

impl Sim {
    fn start(workers: usize) -> &'static Sim {
        let server = tiny_http::Server::http("127.0.0.1:0").expect("bind loopback simulator");
        let port = server
            .server_addr()
            .to_ip()
            .map(|a| a.port())
            .expect("ip listener");
        let sim: &'static Sim = Box::leak(Box::new(Sim {
            port,
            scopes: Mutex::new(HashMap::new()),
            counter: AtomicU64::new(0),
            unrouted: AtomicU64::new(0),
        }));
        let server = Arc::new(server);
        for _ in 0..workers {
            let server = server.clone();
            std::thread::spawn(move || loop {
                let rq = match server.recv() {
                    Ok(r) => r,
                    Err(_) => break,
                };
                let n = sim.counter.fetch_add(1, Ordering::SeqCst);
                let req = parse_url(rq.url(), n);
                let scope = site_of(&req).and_then(|s| sim.scopes.lock().ok()?.get(&s).cloned());
                let resp = match scope {
                    Some(sc) => match sc.lock() {
                        Ok(mut g) => g.handle(&req),
                        Err(_) => Resp::status(500),
                    },
                    None => {
                        sim.unrouted.fetch_add(1, Ordering::SeqCst);
                        Resp::status(404)
                    }
                };
                // a held reply: the scope's lock is free again, the request stays in flight
                let resp = if resp.status == 996 {
                    let id = resp.headers.iter().find(|(k, _)| k == "X-Hold").and_then(|(_, v)| v.parse::<u64>().ok()).unwrap_or(0);
                    match holds().lock().ok().and_then(|mut m| m.remove(&id)) {
                        Some((gate, inner)) => {
                            gate.wait();
                            inner
                        }
                        None => Resp::status(500),
                    }
                } else {
                    resp
                };
                if resp.status == 998 || resp.status == 997 {
                    let stall = resp.status == 997;
                    let missing = resp.headers.iter().find(|(k, _)| k == "X-Missing").and_then(|(_, v)| v.parse::<usize>().ok()).unwrap_or(1);
                    if let Ok(mut m) = cuts().lock() {
                        m.insert(n, (resp.body, missing, stall));
                    }
                    let loc = format!("http://127.0.0.1:{}/cut/{}", fault_port(), n);
                    let mut r = tiny_http::Response::from_data(Vec::new()).with_status_code(307);
                    if let Ok(h) = tiny_http::Header::from_bytes(&b"Location"[..], loc.as_bytes()) {
                        r = r.with_header(h);
                    }
                    let _ = rq.respond(r);
                    continue;
                }
                if resp.status == 999 {
                    use std::io::Write;
                    let mut w = rq.into_writer();
                    let _ = w.write_all(&resp.body);
                    let _ = w.flush();
                    drop(w);
                    continue;
                }
                let mut r = tiny_http::Response::from_data(resp.body).with_status_code(resp.status);
                for (k, v) in resp.headers {
                    if let Ok(h) = tiny_http::Header::from_bytes(k.as_bytes(), v.as_bytes()) {
                        r = r.with_header(h);
                    }
                }
                let _ = rq.respond(r);
            });
        }
        sim
    }

    pub fn endpoint(&self) -> String {
        format!("http://127.0.0.1:{}", self.port)
    }

    pub fn register(&self, site: &str, scope: Arc<Mutex<dyn Scope>>) {
        if let Ok(mut m) = self.scopes.lock() {
            m.insert(site.to_string(), scope);
        }
    }

    pub fn unregister(&self, site: &str) {
        if let Ok(mut m) = self.scopes.lock() {
            m.remove(site);
        }
    }
}

fn cuts() -> &'static Mutex<HashMap<u64, (Vec<u8>, usize, bool)>> {
    static CUTS: OnceLock<Mutex<HashMap<u64, (Vec<u8>, usize, bool)>>> = OnceLock::new();
    CUTS.get_or_init(|| Mutex::new(HashMap::new()))
}

/// A raw TCP listener that plays out replies tiny_http cannot produce: a 200 whose body stops
/// short of its Content-Length, followed by the connection being closed.
fn fault_port() -> u16 {
    static PORT: OnceLock<u16> = OnceLock::new();
    *PORT.get_or_init(|| {
        let l = std::net::TcpListener::bind("127.0.0.1:0").expect("bind loopback fault port");
        let port = l.local_addr().map(|a| a.port()).expect("fault port");
        std::thread::spawn(move || {
            for conn in l.incoming() {
                let Ok(mut c) = conn else { continue };
                std::thread::spawn(move || {
                    use std::io::{Read, Write};
                    let _ = c.set_read_timeout(Some(std::time::Duration::from_secs(5)));
                    let mut head = Vec::new();
                    let mut b = [0u8; 1];
                    while !head.ends_with(b"\r\n\r\n") && head.len() < 8192 {
                        match c.read(&mut b) {
                            Ok(1) => head.push(b[0]),
                            _ => break,
                        }
                    }
                    let line = String::from_utf8_lossy(&head);
                    let id = line.split_whitespace().nth(1).and_then(|p| p.rsplit('/').next().map(|x| x.to_string())).and_then(|x| x.parse::<u64>().ok());
                    let entry = id.and_then(|i| cuts().lock().ok().and_then(|mut m| m.remove(&i)));
                    if let Some((body, missing, stall)) = entry {
                        let _ = write!(c, "HTTP/1.1 200 OK\r\nContent-Type: application/xml\r\nLast-Modified: Tue, 13 Aug 2024 12:33:30 GMT\r\nContent-Length: {}\r\n\r\n", body.len() + missing);
                        let _ = c.write_all(&body);
                        let _ = c.flush();
                        if stall {
                            // hold the connection until the client closes it or three seconds pass
                            let _ = c.set_read_timeout(Some(std::time::Duration::from_millis(50)));
                            let t0 = std::time::Instant::now();
                            let mut sink = [0u8; 64];
                            while t0.elapsed() < std::time::Duration::from_secs(3) {
                                match c.read(&mut sink) {
                                    Ok(0) => break,
                                    Ok(_) => {}
                                    Err(e) if matches!(e.kind(), std::io::ErrorKind::WouldBlock | std::io::ErrorKind::TimedOut) => {}
                                    Err(_) => break,
                                }
                            }
                        }
                    }
                    let _ = c.shutdown(std::net::Shutdown::Both);
                });
            }
        });
        port
    })
}

static SIM: OnceLock<&'static Sim> = OnceLock::new();

/// The process-wide simulator; the first call starts it and points the repository's
/// `verif-hooks` endpoint override at it.
pub fn global() -> &'static Sim {
    SIM.get_or_init(|| {
        let sim = Sim::start(24);
        std::env::set_var("NEXRAD_VERIF_S3_ENDPOINT", sim.endpoint());
        sim
    })
}

static SITE_COUNTER: AtomicU64 = AtomicU64::new(0);
/// calls of `block_on` that were driven by a multi-threaded runtime
pub static MULTI_THREAD_RUNS: AtomicU64 = AtomicU64::new(0);

/// A fresh four-character site id (base 36, first character a letter).
pub fn fresh_site() -> String {
    let n = SITE_COUNTER.fetch_add(1, Ordering::SeqCst);
    let digits = b"0123456789ABCDEFGHIJKLMNOPQRSTUVWXYZ";
    let mut s = String::new();
    s.push((b'A' + (n / (36 * 36 * 36) % 26) as u8) as char);
    s.push(digits[(n / (36 * 36) % 36) as usize] as char);
    s.push(digits[(n / 36 % 36) as usize] as char);
    s.push(digits[(n % 36) as usize] as char);
    s
}

// ---------------------------------------------------------------------------------------------
// Bucket model and ListObjectsV2 rendering
// ---------------------------------------------------------------------------------------------

#[derive(Clone, Debug)]
pub struct Obj {
    pub key: String,
    /// RFC 3339 text exactly as the listing shows it.
    pub last_modified: String,
    /// Size text exactly as the listing shows it (may be unparsable on purpose).
    pub size: String,
}

pub fn xml_escape(s: &str) -> String {
    let mut o = String::with_capacity(s.len());
    for c in s.chars() {
        match c {
            '&' => o.push_str("&amp;"),
            '<' => o.push_str("&lt;"),
            '>' => o.push_str("&gt;"),
            '"' => o.push_str("&quot;"),
            '\'' => o.push_str("&apos;"),
            c => o.push(c),
        }
    }
    o
}

/// Render a ListObjectsV2 response the way S3 does (entity-escaped text, sibling elements).
pub fn list_xml(bucket: &str, prefix: &str, objs: &[&Obj], truncated: bool, max_keys: usize, pretty: bool) -> String {
    let nl = if pretty { "\n  " } else { "" };
    let nl2 = if pretty { "\n    " } else { "" };
    let mut s = String::new();
    s.push_str("<?xml version=\"1.0\" encoding=\"UTF-8\"?>");
    if pretty {
        s.push('\n');
    }
    s.push_str("<ListBucketResult xmlns=\"http://s3.amazonaws.com/doc/2006-03-01/\">");
    s.push_str(&format!("{nl}<Name>{}</Name>", xml_escape(bucket)));
    s.push_str(&format!("{nl}<Prefix>{}</Prefix>", xml_escape(prefix)));
    s.push_str(&format!("{nl}<KeyCount>{}</KeyCount>", objs.len()));
    s.push_str(&format!("{nl}<MaxKeys>{}</MaxKeys>", max_keys));
    s.push_str(&format!("{nl}<IsTruncated>{}</IsTruncated>", truncated));
    for o in objs {
        s.push_str(&format!("{nl}<Contents>"));
        s.push_str(&format!("{nl2}<Key>{}</Key>", xml_escape(&o.key)));
        s.push_str(&format!("{nl2}<LastModified>{}</LastModified>", o.last_modified));
        s.push_str(&format!("{nl2}<ETag>&quot;0123456789abcdef0123456789abcdef&quot;</ETag>"));
        s.push_str(&format!("{nl2}<Size>{}</Size>", o.size));
        s.push_str(&format!("{nl2}<StorageClass>STANDARD</StorageClass>"));
        s.push_str(&format!("{nl}</Contents>"));
    }
    if pretty {
        s.push('\n');
    }
    s.push_str("</ListBucketResult>");
    s
}

/// Objects whose key begins with `prefix`, in bucket (byte-lexicographic) order, cut at
/// min(max_keys, 1000); returns (selected, truncated).
pub fn select<'a>(sorted: &'a [Obj], prefix: &str, max_keys: Option<usize>) -> (Vec<&'a Obj>, bool, usize) {
    let limit = max_keys.unwrap_or(1000).min(1000);
    let all: Vec<&Obj> = sorted.iter().filter(|o| o.key.starts_with(prefix)).collect();
    // S3 answers max-keys=0 with no keys and IsTruncated=false
    let truncated = limit > 0 && all.len() > limit;
    (all.into_iter().take(limit).collect(), truncated, limit)
}

pub fn rfc2822(epoch_s: i64) -> String {
    let c = crate::cal::civil_from_epoch_ms(epoch_s * 1000);
    let days = epoch_s.div_euclid(86_400);
    let wd = ["Thu", "Fri", "Sat", "Sun", "Mon", "Tue", "Wed"][(days.rem_euclid(7)) as usize];
    let mon = ["Jan", "Feb", "Mar", "Apr", "May", "Jun", "Jul", "Aug", "Sep", "Oct", "Nov", "Dec"][(c.month - 1) as usize];
    format!(
        "{}, {:02} {} {:04} {:02}:{:02}:{:02} GMT",
        wd, c.day, mon, c.year, c.hour, c.minute, c.second
    )
}

pub fn rfc3339(epoch_ms: i64, fractional: bool) -> String {
    let c = crate::cal::civil_from_epoch_ms(epoch_ms);
    if fractional {
        format!(
            "{:04}-{:02}-{:02}T{:02}:{:02}:{:02}.{:03}Z",
            c.year, c.month, c.day, c.hour, c.minute, c.second, c.milli
        )
    } else {
        format!(
            "{:04}-{:02}-{:02}T{:02}:{:02}:{:02}Z",
            c.year, c.month, c.day, c.hour, c.minute, c.second
        )
    }
}

// ---------------------------------------------------------------------------------------------
// Calls that were given up, and calls in flight at the same time
// ---------------------------------------------------------------------------------------------
//
// Every asynchronous library call of C15 and C17 goes through `block_on(false, ..)`.  Part of the
// time that call is not alone on its runtime:
//   * a *prelude*: before the call, another library call (download, listing or discovery against
//     a site of this thread's own whose replies stall mid-way) is started under a short
//     `tokio::time::timeout` and dropped when it fires - a caller who gave up on a request.  What
//     the dropped future leaves behind in the process must not reach the call that follows, which
//     is judged by its own oracle as always;
//   * a *companion*: the call is joined (`tokio::join!`) with a download or listing of known
//     content on the same runtime; the simulator answers the companion after a few milliseconds,
//     so both requests are in flight together.  The call is judged by its oracle, the companion
//     against what its site holds; a mismatch there is reported through `SIDE_VIOLATIONS`.

pub static SIDE_VIOLATIONS: Mutex<Vec<(String, String)>> = Mutex::new(Vec::new());
pub static PRELUDES: AtomicU64 = AtomicU64::new(0);
pub static PRELUDES_CANCELLED: AtomicU64 = AtomicU64::new(0);
pub static COMPANIONS: AtomicU64 = AtomicU64::new(0);
pub static COMPANIONS_EXACT: AtomicU64 = AtomicU64::new(0);

pub fn side_violation(sig: &str, detail: String) {
    if let Ok(mut v) = SIDE_VIOLATIONS.lock() {
        if v.len() < 50 {
            v.push((sig.to_string(), detail));
        }
    }
}

/// This thread's auxiliary site: a few chunks in volume 7 (every listing and object reply is
/// delayed by a few milliseconds), the same chunks under `stall-` names whose replies stall
/// mid-body, and a volume directory tree for discoveries whose fifth listing stalls.
struct Aux {
    site: String,
    chunk_names: Vec<String>,
    chunk_bytes: Vec<Vec<u8>>,
    stall_everything: bool,
    lists_seen: u64,
}

const AUX_LM_S: i64 = 1_723_552_410; // Tue, 13 Aug 2024 12:33:30 GMT

impl Scope for Aux {
    fn handle(&mut self, req: &Req) -> Resp {
        if req.is_list() {
            self.lists_seen += 1;
            let prefix = req.q("prefix").unwrap_or("").to_string();
            let max_keys = req.q("max-keys").and_then(|m| m.parse::<usize>().ok());
            let mut objs: Vec<Obj> = Vec::new();
            for (i, n) in self.chunk_names.iter().enumerate() {
                objs.push(Obj { key: format!("{}/7/{}", self.site, n), last_modified: rfc3339(AUX_LM_S * 1000 + i as i64 * 1000, true), size: self.chunk_bytes[i].len().to_string() });
            }
            objs.push(Obj { key: format!("{}/8/20240813-124000-001-S", self.site), last_modified: rfc3339(AUX_LM_S * 1000 + 600_000, true), size: "1".into() });
            objs.sort_by(|a, b| a.key.as_bytes().cmp(b.key.as_bytes()));
            let (sel, truncated, limit) = select(&objs, &prefix, max_keys);
            let xml = list_xml(&req.bucket, &prefix, &sel, truncated, limit, false).into_bytes();
            if self.stall_everything && self.lists_seen % 5 == 0 {
                let keep = xml.len() / 2;
                return Resp::stalled(xml[..keep].to_vec(), xml.len() - keep);
            }
            std::thread::sleep(std::time::Duration::from_millis(3));
            return Resp { status: 200, headers: vec![("Content-Type".into(), "application/xml".into())], body: xml };
        }
        let key = req.key.clone().unwrap_or_default();
        let name = key.rsplit('/').next().unwrap_or("");
        match self.chunk_names.iter().position(|n| n == name) {
            Some(i) if self.stall_everything => {
                let b = &self.chunk_bytes[i];
                let keep = b.len() * 2 / 3;
                Resp::stalled(b[..keep].to_vec(), b.len() - keep)
            }
            Some(i) => {
                std::thread::sleep(std::time::Duration::from_millis(3));
                Resp::object(self.chunk_bytes[i].clone(), Some(rfc2822(AUX_LM_S)))
            }
            None => Resp::status(404),
        }
    }
}

struct AuxHandle {
    site: String,
    scope: Arc<Mutex<Aux>>,
    names: Vec<String>,
    bytes: Vec<Vec<u8>>,
}

fn aux() -> std::rc::Rc<AuxHandle> {
    thread_local! { static AUX: std::cell::RefCell<Option<std::rc::Rc<AuxHandle>>> = const { std::cell::RefCell::new(None) }; }
    AUX.with(|a| {
        if let Some(h) = a.borrow().as_ref() {
            return h.clone();
        }
        let site = fresh_site();
        let mut rng = crate::rng::Rng::derive(crate::rng::fnv(site.as_bytes()), 99, 1);
        let mut names = Vec::new();
        let mut bytes = Vec::new();
        for seq in 2..=6usize {
            names.push(format!("20240813-123330-{:03}-I", seq));
            let payload = rng.bytes(3000 + seq * 7000);
            bytes.push(crate::enc::ldm_record(&crate::enc::bzip2_compress(&payload, 1), false));
        }
        let scope = Arc::new(Mutex::new(Aux { site: site.clone(), chunk_names: names.clone(), chunk_bytes: bytes.clone(), stall_everything: false, lists_seen: 0 }));
        global().register(&site, scope.clone());
        let h = std::rc::Rc::new(AuxHandle { site, scope, names, bytes });
        *a.borrow_mut() = Some(h.clone());
        h
    })
}

async fn prelude(kind: u64) {
    use nexrad_data::aws::realtime::{self, ChunkIdentifier, VolumeIndex};
    let h = aux();
    if let Ok(mut g) = h.scope.lock() {
        g.stall_everything = true;
        g.lists_seen = 0;
    }
    PRELUDES.fetch_add(1, Ordering::Relaxed);
    let wait = std::time::Duration::from_millis(25 + (kind % 4) * 15);
    let cancelled = match kind % 3 {
        0 => {
            let id = ChunkIdentifier::new(h.site.clone(), VolumeIndex::new(7), h.names[(kind as usize / 3) % h.names.len()].clone(), None);
            tokio::time::timeout(wait, realtime::download_chunk(&h.site, &id)).await.is_err()
        }
        1 => tokio::time::timeout(wait, async {
            // the fifth listing stalls; the ones before it are answered
            for _ in 0..5 {
                let _ = realtime::list_chunks_in_volume(&h.site, VolumeIndex::new(7), 100).await;
            }
        })
        .await
        .is_err(),
        _ => tokio::time::timeout(wait, realtime::get_latest_volume(&h.site)).await.is_err(),
    };
    if cancelled {
        PRELUDES_CANCELLED.fetch_add(1, Ordering::Relaxed);
    }
    if let Ok(mut g) = h.scope.lock() {
        g.stall_everything = false;
    };
}

async fn companion(kind: u64) {
    use nexrad_data::aws::realtime::{self, ChunkIdentifier, VolumeIndex};
    let h = aux();
    COMPANIONS.fetch_add(1, Ordering::Relaxed);
    if kind % 2 == 0 {
        let i = (kind as usize / 2) % h.names.len();
        let id = ChunkIdentifier::new(h.site.clone(), VolumeIndex::new(7), h.names[i].clone(), None);
        match realtime::download_chunk(&h.site, &id).await {
            Ok((got_id, chunk)) => {
                if chunk.data() != &h.bytes[i][..] {
                    side_violation("a download in flight beside another call returns bytes that are not the stored object", format!("companion object {}: {} bytes stored, {} returned", h.names[i], h.bytes[i].len(), chunk.data().len()));
                } else if got_id.name() != h.names[i] || got_id.date_time().map(|t| t.timestamp()) != Some(AUX_LM_S) {
                    side_violation("a download in flight beside another call is not labelled / stamped as its own object", format!("asked {}, got {:?}", h.names[i], got_id));
                } else {
                    COMPANIONS_EXACT.fetch_add(1, Ordering::Relaxed);
                }
            }
            Err(e) => {
                let text = format!("{e:?}");
                if !text.contains("onnect") {
                    side_violation("a download of a stored object fails when another call is in flight beside it", text);
                }
            }
        }
    } else {
        let max_keys = [100usize, 3, 1000][(kind as usize / 2) % 3];
        match realtime::list_chunks_in_volume(&h.site, VolumeIndex::new(7), max_keys).await {
            Ok(ids) => {
                let want: Vec<&String> = h.names.iter().take(max_keys).collect();
                let got: Vec<String> = ids.iter().map(|i| i.name().to_string()).collect();
                if got.len() != want.len() || got.iter().zip(want.iter()).any(|(a, b)| a != *b) {
                    side_violation("a listing in flight beside another call does not return its own directory", format!("max-keys {}: expected {:?}, got {:?}", max_keys, want, got));
                } else {
                    COMPANIONS_EXACT.fetch_add(1, Ordering::Relaxed);
                }
            }
            Err(e) => {
                let text = format!("{e:?}");
                if !text.contains("onnect") {
                    side_violation("a listing of a well-formed directory fails when another call is in flight beside it", text);
                }
            }
        }
    }
}

/// Current-thread tokio runtime, optionally with the clock paused (virtual time).  Where the
/// caller stands is part of the workload: without a paused clock, every eighth call on a thread is
/// driven by a multi-threaded runtime (two workers) instead; one call in six follows a call that
/// was given up on the same runtime, one in six has a companion in flight beside it.
pub fn block_on<F: std::future::Future>(paused: bool, f: F) -> F::Output {
    thread_local! { static CALLS: std::cell::Cell<u64> = const { std::cell::Cell::new(0) }; }
    let k = CALLS.with(|c| { let v = c.get(); c.set(v + 1); v });
    let plain = paused || std::env::var_os("VERIF_NO_COMPANY").is_some();
    let with_prelude = !plain && k % 6 == 2;
    let with_companion = !plain && k % 6 == 4;
    let f = async move {
        if with_prelude {
            prelude(k / 6).await;
            f.await
        } else if with_companion {
            let (out, ()) = tokio::join!(f, companion(k / 6));
            out
        } else {
            f.await
        }
    };
    if !paused && k % 8 == 5 {
        if let Ok(rt) = tokio::runtime::Builder::new_multi_thread().worker_threads(2).enable_all().build() {
            MULTI_THREAD_RUNS.fetch_add(1, Ordering::Relaxed);
            return rt.block_on(f);
        }
    }
    let rt = tokio::runtime::Builder::new_current_thread()
        .enable_all()
        .start_paused(paused)
        .build()
        .expect("tokio runtime");
    rt.block_on(f)
}
