//! Loopback S3 simulator (filled in with C15b/C17/C18).
