#![allow(dead_code)]
//! nxverif — runtime-monitoring harness for danielway/nexrad properties C01..C20.
//! Usage: nxverif <Cxx> <quick|thorough> | nxverif <Cxx> --replay <path>

mod cal;
mod enc;
mod ev;
mod mon;
mod props;
mod rng;
#[cfg(feature = "data")]
mod s3sim;
mod volgen;

use ev::{Ctx, Tier};

#[global_allocator]
static GLOBAL: mon::CountingAlloc = mon::CountingAlloc;

fn usage() -> ! {
    eprintln!("usage: nxverif <C01..C19> <quick|thorough> | nxverif <Cxx> --replay <path>");
    std::process::exit(2);
}

/// A `log` back end that renders every record (at Trace) into a discarded buffer.  With it
/// installed the library's log statements really format their arguments - as they do for a user
/// who runs with a logger at debug or trace level - so a `{:?}` that can panic or spin inside a
/// log line is executed under the monitors.  Installed for three seeds out of four; every fourth seed
/// (seed % 4 == 0) runs without any logger, as most consumers do.
struct SinkLogger;
static LOG_RECORDS: std::sync::atomic::AtomicU64 = std::sync::atomic::AtomicU64::new(0);
impl log::Log for SinkLogger {
    fn enabled(&self, _m: &log::Metadata) -> bool {
        true
    }
    fn log(&self, record: &log::Record) {
        use std::fmt::Write;
        let mut s = String::new();
        let _ = write!(s, "{}", record.args());
        std::hint::black_box(s.len());
        LOG_RECORDS.fetch_add(1, std::sync::atomic::Ordering::Relaxed);
    }
    fn flush(&self) {}
}
static SINK: SinkLogger = SinkLogger;

/// CPU seconds one monitored call may consume before it is reported as not terminating.
const GENERIC_CPU_BUDGET_S: u64 = 120;

fn main() {
    let args: Vec<String> = std::env::args().collect();
    if args.len() < 3 {
        usage();
    }
    let prop = args[1].to_uppercase();
    let seed: u64 = std::env::var("VERIF_SEED")
        .ok()
        .and_then(|s| s.parse().ok())
        .unwrap_or(1);

    let (tier, replay) = if args[2] == "--replay" {
        if args.len() < 4 {
            usage();
        }
        let text = match std::fs::read_to_string(&args[3]) {
            Ok(t) => t,
            Err(e) => {
                eprintln!("HARNESS-ERROR: cannot read replay {}: {}", args[3], e);
                std::process::exit(2);
            }
        };
        let v: serde_json::Value = match serde_json::from_str::<serde_json::Value>(&text) {
            Ok(mut v) => {
                if let Some(o) = v.as_object_mut() {
                    o.insert("_path".into(), serde_json::Value::String(args[3].clone()));
                }
                v
            }
            Err(e) => {
                eprintln!("HARNESS-ERROR: replay does not parse: {}", e);
                std::process::exit(2);
            }
        };
        let tier = match v.get("tier").and_then(|t| t.as_str()) {
            Some("thorough") => Tier::Thorough,
            _ => Tier::Quick,
        };
        (tier, Some(v))
    } else {
        let tier = match args[2].as_str() {
            "quick" => Tier::Quick,
            "thorough" => Tier::Thorough,
            _ => usage(),
        };
        (tier, None)
    };

    let seed = replay
        .as_ref()
        .and_then(|r| r.get("seed"))
        .and_then(|s| s.as_u64())
        .unwrap_or(seed);

    rng::set_pool_seed(seed);
    mon::install_panic_hook();
    let with_logger = match std::env::var("VERIF_LOGGER").ok().as_deref() {
        Some("0") => false,
        Some(_) => true,
        None => seed % 4 != 0,
    };
    if with_logger && log::set_logger(&SINK).is_ok() {
        log::set_max_level(log::LevelFilter::Trace);
    }
    if let Err(e) = cal::self_check() {
        eprintln!("HARNESS-ERROR: calendar self-check failed: {}", e);
        std::process::exit(2);
    }

    if let Err(e) = mon::guard_self_check() {
        eprintln!("HARNESS-ERROR: guard allocator self-check failed: {}", e);
        std::process::exit(2);
    }

    let mut ctx = Ctx::new(&prop, tier, seed);
    ctx.replay = replay;

    // Outer watchdog: a harness that hangs is inconclusive, never a verdict.
    {
        let limit = std::env::var("VERIF_WATCHDOG_S")
            .ok()
            .and_then(|s| s.parse::<u64>().ok())
            .unwrap_or(match tier {
                Tier::Quick => 900,
                Tier::Thorough => 6 * 3600,
            });
        let p = prop.clone();
        std::thread::spawn(move || {
            std::thread::sleep(std::time::Duration::from_secs(limit));
            println!(
                "INCONCLUSIVE: property={} outer wall-clock watchdog ({} s) fired",
                p, limit
            );
            std::process::exit(2);
        });
    }

    // Termination monitor for every property: a single monitored call into the library that
    // burns more than the budget of *CPU time* (not wall time) is reported as not terminating.
    // C04 and C06 start their own, with tighter budgets and the input bytes as witness.
    // A call that blocks for good burns no CPU: for the properties whose calls perform no I/O, two
    // minutes of wall time inside one call with less than a second of CPU time is a verdict too.
    if !matches!(prop.as_str(), "C15" | "C17" | "C18") {
        mon::BLOCKED_AFTER_WALL_S.store(120, std::sync::atomic::Ordering::Relaxed);
    }
    if prop != "C04" && prop != "C06" {
        let (p, t, sd) = (prop.clone(), tier, seed);
        mon::start_cpu_watchdog(GENERIC_CPU_BUDGET_S, move |op, family, input, cpu| {
            ev::report_stuck_and_exit(&p, t, sd, op, family, input, cpu, GENERIC_CPU_BUDGET_S)
        });
    }

    let run = props::lookup(&prop);
    let Some(run) = run else {
        eprintln!("HARNESS-ERROR: unknown property {}", prop);
        std::process::exit(2);
    };
    // Shadow runs: the property's whole workload - its sequential, exhaustive sweeps included - is
    // executed three more times beside the main run, in the same process and at the same time
    // (other seeds; an eighth of the parallel cases on two threads each).  Every case of a shadow
    // run is judged by the same oracle; only violations are taken from it.  The library's functions
    // are pure, so what other threads do meanwhile may not change any result: shared state a
    // change adds (a process-wide cache, pool, memo or table) whose update is not atomic with the
    // read that depends on it is exercised by callers that really are inside the library at the
    // same moment.  Not for C04/C06 (per-thread CPU and allocation budgets around their own calls)
    // and C15/C17/C18 (the simulator's cases already run sixteen at a time).
    let shadows: usize = if ctx.replay.is_some() || matches!(prop.as_str(), "C04" | "C06" | "C15" | "C17" | "C18") {
        0
    } else {
        std::env::var("VERIF_SHADOWS").ok().and_then(|v| v.parse().ok()).unwrap_or(3)
    };
    let shadow_results: Vec<(ev::Obs, bool)> = std::thread::scope(|s| {
        let handles: Vec<_> = (0..shadows)
            .map(|k| {
                let prop = prop.clone();
                s.spawn(move || {
                    let mut sctx = Ctx::new(&prop, tier, seed.wrapping_add(7_919 * (k as u64 + 1)));
                    sctx.shadow = true;
                    let r = mon::catch_escaped(|| run(&mut sctx));
                    let clean = match r {
                        Ok(()) => true,
                        Err(p) if p.file.contains("harness/src/") => false,
                        Err(p) => {
                            sctx.obs.violation(
                                format!("a library call made while a case was judged panicked: {}", p.signature()),
                                format!("{} at {}:{}", p.message, p.file, p.line),
                                serde_json::json!({"panic": p.message, "at": format!("{}:{}", p.file, p.line)}),
                            );
                            true
                        }
                    };
                    (sctx.obs, clean)
                })
            })
            .collect();
        // a panic that escapes the workload itself: raised in the harness's sources it is a harness
        // fault; raised anywhere else it is a library call that panicked on a well-formed case
        if let Err(p) = mon::catch_escaped(|| run(&mut ctx)) {
            if p.file.contains("harness/src/") {
                ctx.obs.inconclusive(format!("the workload panicked outside a monitored call ({}:{} {})", p.file, p.line, p.message));
            } else {
                ctx.obs.violation(
                    format!("a library call made while a case was judged panicked: {}", p.signature()),
                    format!("{} at {}:{}", p.message, p.file, p.line),
                    serde_json::json!({"panic": p.message, "at": format!("{}:{}", p.file, p.line)}),
                );
            }
        }
        handles.into_iter().filter_map(|h| h.join().ok()).collect()
    });
    for (o, clean) in shadow_results {
        ctx.obs.count("shadow_runs_of_the_workload_beside_the_main_run_in_the_same_process", 1);
        ctx.obs.count("evaluations_in_shadow_runs", o.evaluations);
        if !clean {
            ctx.obs.inconclusive("a shadow run of the workload panicked outside a monitored call");
        }
        if o.violation_count > 0 && ctx.obs.violation_count == 0 {
            ctx.obs.count("violations_seen_only_in_a_shadow_run", o.violation_count);
        }
        ctx.obs.take_violations(o);
    }
    ctx.obs.count(if with_logger { "run_with_a_trace_level_logger_rendering_every_record" } else { "run_without_a_logger" }, 1);
    ctx.obs.count("log_records_rendered", LOG_RECORDS.load(std::sync::atomic::Ordering::Relaxed));
    #[cfg(feature = "data")]
    {
        let n = s3sim::MULTI_THREAD_RUNS.load(std::sync::atomic::Ordering::Relaxed);
        if n > 0 {
            ctx.obs.count("async_calls_driven_by_a_multi_thread_runtime", n);
        }
    }
    let code = ctx.finish();
    std::process::exit(code);
}
