#![allow(dead_code)]
//! nxverif — runtime-monitoring harness for danielway/nexrad properties C01..C20.
//! Usage: nxverif <Cxx> <quick|thorough> | nxverif <Cxx> --replay <path>

mod cal;
mod enc;
mod ev;
mod mon;
mod props;
mod rng;
#[cfg(feature = "data")]
mod s3sim;
mod volgen;

use ev::{Ctx, Tier};

#[global_allocator]
static GLOBAL: mon::CountingAlloc = mon::CountingAlloc;

fn usage() -> ! {
    eprintln!("usage: nxverif <C01..C19> <quick|thorough> | nxverif <Cxx> --replay <path>");
    std::process::exit(2);
}

/// A `log` back end that renders every record (at Trace) into a discarded buffer.  With it
/// installed the library's log statements really format their arguments - as they do for a user
/// who runs with a logger at debug or trace level - so a `{:?}` that can panic or spin inside a
/// log line is executed under the monitors.  Installed for three seeds out of four; every fourth seed
/// (seed % 4 == 0) runs without any logger, as most consumers do.
struct SinkLogger;
static LOG_RECORDS: std::sync::atomic::AtomicU64 = std::sync::atomic::AtomicU64::new(0);
impl log::Log for SinkLogger {
    fn enabled(&self, _m: &log::Metadata) -> bool {
        true
    }
    fn log(&self, record: &log::Record) {
        use std::fmt::Write;
        let mut s = String::new();
        let _ = write!(s, "{}", record.args());
        std::hint::black_box(s.len());
        LOG_RECORDS.fetch_add(1, std::sync::atomic::Ordering::Relaxed);
    }
    fn flush(&self) {}
}
static SINK: SinkLogger = SinkLogger;

/// CPU seconds one monitored call may consume before it is reported as not terminating.
const GENERIC_CPU_BUDGET_S: u64 = 120;

fn main() {
    let args: Vec<String> = std::env::args().collect();
    if args.len() < 3 {
        usage();
    }
    let prop = args[1].to_uppercase();
    let seed: u64 = std::env::var("VERIF_SEED")
        .ok()
        .and_then(|s| s.parse().ok())
        .unwrap_or(1);

    let (tier, replay) = if args[2] == "--replay" {
        if args.len() < 4 {
            usage();
        }
        let text = match std::fs::read_to_string(&args[3]) {
            Ok(t) => t,
            Err(e) => {
                eprintln!("HARNESS-ERROR: cannot read replay {}: {}", args[3], e);
                std::process::exit(2);
            }
        };
        let v: serde_json::Value = match serde_json::from_str::<serde_json::Value>(&text) {
            Ok(mut v) => {
                if let Some(o) = v.as_object_mut() {
                    o.insert("_path".into(), serde_json::Value::String(args[3].clone()));
                }
                v
            }
            Err(e) => {
                eprintln!("HARNESS-ERROR: replay does not parse: {}", e);
                std::process::exit(2);
            }
        };
        let tier = match v.get("tier").and_then(|t| t.as_str()) {
            Some("thorough") => Tier::Thorough,
            _ => Tier::Quick,
        };
        (tier, Some(v))
    } else {
        let tier = match args[2].as_str() {
            "quick" => Tier::Quick,
            "thorough" => Tier::Thorough,
            _ => usage(),
        };
        (tier, None)
    };

    let seed = replay
        .as_ref()
        .and_then(|r| r.get("seed"))
        .and_then(|s| s.as_u64())
        .unwrap_or(seed);

    rng::set_pool_seed(seed);
    mon::install_panic_hook();
    let with_logger = match std::env::var("VERIF_LOGGER").ok().as_deref() {
        Some("0") => false,
        Some(_) => true,
        None => seed % 4 != 0,
    };
    if with_logger && log::set_logger(&SINK).is_ok() {
        log::set_max_level(log::LevelFilter::Trace);
    }
    if let Err(e) = cal::self_check() {
        eprintln!("HARNESS-ERROR: calendar self-check failed: {}", e);
        std::process::exit(2);
    }

    if let Err(e) = mon::guard_self_check() {
        eprintln!("HARNESS-ERROR: guard allocator self-check failed: {}", e);
        std::process::exit(2);
    }

    let mut ctx = Ctx::new(&prop, tier, seed);
    ctx.replay = replay;

    // Outer watchdog: a harness that hangs is inconclusive, never a verdict.
    {
        let limit = std::env::var("VERIF_WATCHDOG_S")
            .ok()
            .and_then(|s| s.parse::<u64>().ok())
            .unwrap_or(match tier {
                Tier::Quick => 900,
                Tier::Thorough => 6 * 3600,
            });
        let p = prop.clone();
        std::thread::spawn(move || {
            std::thread::sleep(std::time::Duration::from_secs(limit));
            println!(
                "INCONCLUSIVE: property={} outer wall-clock watchdog ({} s) fired",
                p, limit
            );
            std::process::exit(2);
        });
    }

    // Termination monitor for every property: a single monitored call into the library that
    // burns more than the budget of *CPU time* (not wall time) is reported as not terminating.
    // C04 and C06 start their own, with tighter budgets and the input bytes as witness.
    // A call that blocks for good burns no CPU: for the properties whose calls perform no I/O, two
    // minutes of wall time inside one call with less than a second of CPU time is a verdict too.
    if !matches!(prop.as_str(), "C15" | "C17" | "C18") {
        mon::BLOCKED_AFTER_WALL_S.store(120, std::sync::atomic::Ordering::Relaxed);
    }
    if prop != "C04" && prop != "C06" {
        let (p, t, sd) = (prop.clone(), tier, seed);
        mon::start_cpu_watchdog(GENERIC_CPU_BUDGET_S, move |op, family, input, cpu| {
            ev::report_stuck_and_exit(&p, t, sd, op, family, input, cpu, GENERIC_CPU_BUDGET_S)
        });
    }

    let run = props::lookup(&prop);
    let Some(run) = run else {
        eprintln!("HARNESS-ERROR: unknown property {}", prop);
        std::process::exit(2);
    };
    run(&mut ctx);
    ctx.obs.count(if with_logger { "run_with_a_trace_level_logger_rendering_every_record" } else { "run_without_a_logger" }, 1);
    ctx.obs.count("log_records_rendered", LOG_RECORDS.load(std::sync::atomic::Ordering::Relaxed));
    #[cfg(feature = "data")]
    {
        let n = s3sim::MULTI_THREAD_RUNS.load(std::sync::atomic::Ordering::Relaxed);
        if n > 0 {
            ctx.obs.count("async_calls_driven_by_a_multi_thread_runtime", n);
        }
    }
    let code = ctx.finish();
    std::process::exit(code);
}
