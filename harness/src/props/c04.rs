//! C04 — Message decoding is total: arbitrary bytes give a value or an error.
//!
//! Monitors: panic capture, CountingReader (logical work budget => termination as bounded
//! progress), per-thread counting allocator (peak above baseline), radial conversion of whatever
//! decoded.

use super::c03::{gen_fixed, gen_radial, Item};
use crate::enc::{self, gen_msg31, gen_vcp, MsgHeader};
use crate::ev::{hex, par_cases, Ctx, Obs};
use crate::mon::{self, CountingReader};
use crate::rng::{fnv, mix, Rng};
use nexrad_decode::messages::clutter_filter_map::decode_clutter_filter_map;
use nexrad_decode::messages::digital_radar_data::decode_digital_radar_data;
use nexrad_decode::messages::rda_status_data::decode_rda_status_message;
use nexrad_decode::messages::volume_coverage_pattern::decode_volume_coverage_pattern;
use nexrad_decode::messages::{
    decode_message_contents, decode_message_header, decode_messages, MessageContents, MessageType,
};
use serde_json::json;
use std::io::Cursor;

const MIB: u64 = 1 << 20;
pub const WORK_CAP: u64 = 50 * MIB;

/// Independent straightforward ICD walk of a message *stream*: how many bytes (plus one per seek)
/// a plain reading of these bytes as Level II messages touches.  Used only to size the work
/// budget; it never judges values.
pub fn walk_stream(b: &[u8]) -> u64 {
    let mut pos = 0usize;
    let mut work = 0u64;
    loop {
        if b.len().saturating_sub(pos) < enc::MSG_HDR {
            work += (b.len().saturating_sub(pos)) as u64;
            return work;
        }
        let mtype = b[pos + 15];
        pos += enc::MSG_HDR;
        work += enc::MSG_HDR as u64;
        if mtype == 31 {
            let (w, end) = walk_type31(b, pos);
            work += w;
            match end {
                Some(e) => pos = e,
                None => return work,
            }
        } else {
            if b.len() - pos < enc::FRAME_BODY {
                return work + (b.len() - pos) as u64;
            }
            pos += enc::FRAME_BODY;
            work += enc::FRAME_BODY as u64;
        }
        if work > 1 << 40 {
            return work;
        }
    }
}

/// Walk one type-31 body starting at `start`; returns (work, position after) or None at EOF.
pub fn walk_type31(b: &[u8], start: usize) -> (u64, Option<usize>) {
    let mut work = 0u64;
    if b.len().saturating_sub(start) < 32 {
        return ((b.len().saturating_sub(start)) as u64, None);
    }
    work += 32;
    let count = u16::from_be_bytes([b[start + 30], b[start + 31]]) as usize;
    let table = start + 32;
    if b.len() - table < 4 * count {
        return (work + (b.len() - table) as u64, None);
    }
    work += 4 * count as u64;
    let mut pos = table + 4 * count;
    for i in 0..count {
        let p = u32::from_be_bytes([
            b[table + 4 * i],
            b[table + 4 * i + 1],
            b[table + 4 * i + 2],
            b[table + 4 * i + 3],
        ]) as usize;
        let at = start.saturating_add(p);
        work += 2; // two seeks
        if at >= b.len() || b.len() - at < 4 {
            return (work + b.len().saturating_sub(at.min(b.len())) as u64, None);
        }
        work += 4;
        let name = &b[at + 1..at + 4];
        let size = match name {
            b"VOL" => 52,
            b"ELV" => 12,
            b"RAD" => 28,
            _ => {
                if b.len() - at < 28 {
                    return (work + (b.len() - at) as u64, None);
                }
                let gates = u16::from_be_bytes([b[at + 8], b[at + 9]]) as usize;
                let word = b[at + 19] as usize;
                28 + gates * (word / 8)
            }
        };
        if b.len() - at < size {
            return (work + (b.len() - at) as u64, None);
        }
        work += size as u64;
        pos = at + size;
        if work > 1 << 40 {
            return (work, None);
        }
    }
    (work, Some(pos))
}

#[derive(Clone, Copy, Debug, PartialEq, Eq)]
pub enum Op {
    Messages,
    Header,
    Type31,
    RdaStatus,
    Vcp,
    ClutterMap,
    Contents(u8),
}

impl Op {
    pub fn name(&self) -> String {
        match self {
            Op::Messages => "decode_messages".into(),
            Op::Header => "decode_message_header".into(),
            Op::Type31 => "decode_digital_radar_data".into(),
            Op::RdaStatus => "decode_rda_status_message".into(),
            Op::Vcp => "decode_volume_coverage_pattern".into(),
            Op::ClutterMap => "decode_clutter_filter_map".into(),
            Op::Contents(_) => "decode_message_contents".into(),
        }
    }
}

fn message_type_of(code: u8) -> MessageType {
    let mut h = [0u8; 28];
    h[15] = code;
    match decode_message_header(&mut &h[..]) {
        Ok(h) => h.message_type(),
        Err(_) => MessageType::Unknown(code),
    }
}

/// Peak-memory bound of the statement: a constant plus a linear function of the input length.
/// Constant for decoding: at most eight live moment buffers of 65535 gates x 31 bytes (one being
/// replaced) plus the pointer table, rounded up to 24 MiB.  Radial conversion additionally holds
/// two more copies of the seven moments (borrowing result + consumed clone): 40 MiB.
/// CPU seconds one decoding or conversion call may consume (the unchanged code's maximum is
/// reported as `max_case_cpu_ms`, three orders of magnitude below).
pub const CPU_BUDGET_S: u64 = 30;

fn mem_bound(n: usize) -> usize {
    (24 * MIB) as usize + 64 * n
}
fn mem_bound_radial(n: usize) -> usize {
    (40 * MIB) as usize + 64 * n
}

/// Run one entry point on one input under all monitors.
pub fn run_op(obs: &mut Obs, op: Op, input: &[u8], family: &str) {
    let n = input.len() as u64;
    let w = match op {
        Op::Messages => walk_stream(input),
        Op::Type31 | Op::Contents(31) => walk_type31(input, 0).0,
        _ => n,
    };
    if w > WORK_CAP {
        obs.count("ops_skipped_by_work_cap", 1);
        return;
    }
    let budget = 64 * (w + n) + MIB;
    let base = mon::alloc_window_begin();
    // a quarter of the inputs are served in short reads (pattern 0 = plain: up to 45-byte pieces)
    let dribble_seed = fnv(input);
    let mut rdr = CountingReader::new(
        mon::DribbleReader::new(Cursor::new(input), dribble_seed),
        if dribble_seed % 4 == 0 { budget.saturating_mul(64) } else { budget },
    );
    if dribble_seed % 4 != 0 {
        rdr = CountingReader::new(mon::DribbleReader::passthrough(Cursor::new(input)), budget);
    }
    let mut radials: Vec<nexrad_decode::messages::digital_radar_data::Message> = Vec::new();
    mon::case_begin(&op.name(), family, input);
    let res = mon::catch(|| -> Result<(), String> {
        match op {
            Op::Messages => {
                let v = decode_messages(&mut rdr).map_err(|e| format!("{e:?}"))?;
                for m in v {
                    if let MessageContents::DigitalRadarData(r) = m.into_contents() {
                        if radials.len() < 4 {
                            radials.push(*r);
                        }
                    }
                }
            }
            Op::Header => {
                decode_message_header(&mut rdr).map_err(|e| format!("{e:?}"))?;
            }
            Op::Type31 => {
                let m = decode_digital_radar_data(&mut rdr).map_err(|e| format!("{e:?}"))?;
                radials.push(m);
            }
            Op::RdaStatus => {
                decode_rda_status_message(&mut rdr).map_err(|e| format!("{e:?}"))?;
            }
            Op::Vcp => {
                decode_volume_coverage_pattern(&mut rdr).map_err(|e| format!("{e:?}"))?;
            }
            Op::ClutterMap => {
                decode_clutter_filter_map(&mut rdr).map_err(|e| format!("{e:?}"))?;
            }
            Op::Contents(code) => {
                let c = decode_message_contents(&mut rdr, message_type_of(code))
                    .map_err(|e| format!("{e:?}"))?;
                if let MessageContents::DigitalRadarData(r) = c {
                    radials.push(*r);
                }
            }
        }
        Ok(())
    });
    mon::case_end();
    let (peak, largest) = mon::alloc_window_end(base);
    let replay = || json!({"op": op.name(), "type_code": if let Op::Contents(c) = op { json!(c) } else { json!(null) },
        "family": family, "input_len": input.len(), "input_hex": hex(&input[..input.len().min(16384)])});
    obs.count("entry_point_calls", 1);
    obs.max("reader_work_over_walk_x100", if w + n > 0 { rdr.work() * 100 / (w + n).max(1) } else { 0 });
    obs.max("peak_bytes_above_baseline", peak as u64);
    match &res {
        Err(p) => obs.violation(
            format!("{} {}", op.name(), p.signature()),
            format!("{} at {}:{} [{}]", p.message, p.file, p.line, family),
            replay(),
        ),
        Ok(Ok(())) => obs.count("returned_value", 1),
        Ok(Err(_)) => obs.count("returned_error", 1),
    }
    if rdr.breached {
        obs.violation(
            format!("{} reader work budget exhausted (does not make progress)", op.name()),
            format!(
                "served {} bytes + {} ops for an input of {} bytes whose plain walk needs {}",
                rdr.bytes, rdr.ops, n, w
            ),
            replay(),
        );
    }
    if peak > mem_bound(input.len()) {
        obs.violation(
            format!("{} peak memory above constant + linear bound", op.name()),
            format!(
                "peak {} bytes (largest single request {}) for an input of {} bytes; bound {}",
                peak,
                largest,
                n,
                mem_bound(input.len())
            ),
            replay(),
        );
    }
    // radial conversion of whatever decoded
    for m in radials {
        let base = mon::alloc_window_begin();
        mon::case_begin("radial conversion", family, input);
        let r = mon::catch(|| {
            let a = m.radial();
            let b = m.clone().into_radial();
            (a.is_ok(), b.is_ok())
        });
        mon::case_end();
        let (peak, _) = mon::alloc_window_end(base);
        obs.count("radial_conversions", 1);
        match r {
            Err(p) => obs.violation(
                format!("radial conversion {}", p.signature()),
                format!("{} at {}:{}", p.message, p.file, p.line),
                replay(),
            ),
            Ok(_) => {}
        }
        if peak > mem_bound_radial(input.len()) {
            obs.violation(
                "radial conversion peak memory above bound",
                format!("peak {}", peak),
                replay(),
            );
        }
    }
}

const CORE_OPS: [Op; 6] = [
    Op::Messages,
    Op::Header,
    Op::Type31,
    Op::RdaStatus,
    Op::Vcp,
    Op::ClutterMap,
];

/// Run every entry point on the input (and, where the input is a framed stream, on its body).
pub fn run_input(obs: &mut Obs, input: &[u8], family: &str, all_types: bool, rng: &mut Rng) {
    if input.len() < enc::MSG_HDR {
        obs.case_trivial();
    } else {
        obs.case(fnv(input));
    }
    for op in CORE_OPS {
        run_op(obs, op, input, family);
    }
    if input.len() > enc::MSG_HDR {
        let body = &input[enc::MSG_HDR..];
        for op in [Op::Type31, Op::RdaStatus, Op::Vcp, Op::ClutterMap] {
            run_op(obs, op, body, family);
        }
        let code = input[15];
        run_op(obs, Op::Contents(code), body, family);
    }
    if all_types {
        for code in 0..=255u8 {
            run_op(obs, Op::Contents(code), input, family);
        }
    } else {
        for _ in 0..3 {
            let code = match rng.below(4) {
                0 => 31,
                1 => *rng.pick(&[2u8, 5, 15]),
                _ => rng.u8(),
            };
            run_op(obs, Op::Contents(code), input, family);
        }
    }
}

// ---- generators ---------------------------------------------------------------------------------

fn valid_stream(rng: &mut Rng) -> Vec<u8> {
    let mut s = Vec::new();
    let n = rng.urange(1, 4);
    for _ in 0..n {
        let it: Item = match rng.below(4) {
            0 => gen_fixed(rng, 2),
            1 => gen_fixed(rng, 5),
            2 => {
                let c = rng.u8();
                gen_fixed(rng, if c == 31 { 15 } else { c })
            }
            _ => gen_radial(rng),
        };
        s.extend_from_slice(it.bytes());
    }
    s
}

fn valid_body(rng: &mut Rng) -> Vec<u8> {
    match rng.below(4) {
        0 => {
            let subset = rng.below(1024) as u16;
            let permute = rng.chance(1, 2);
            let mut m = gen_msg31(rng, subset, permute, false);
            for b in m.blocks.iter_mut() {
                if let enc::Block::Mom(mo) = b {
                    if mo.gates > 100 {
                        mo.gates %= 100;
                        mo.data.truncate(mo.gates as usize * (mo.word as usize / 8));
                    }
                }
            }
            m.encode(rng)
        }
        1 => {
            let n = rng.urange(0, 51);
            gen_vcp(rng, n).encode()
        }
        2 => enc::encode_halfwords(&enc::gen_rda_status_in_domain(rng)),
        _ => gen_clutter_small(rng).encode(),
    }
}

pub fn gen_clutter_small(rng: &mut Rng) -> enc::ClutterMap {
    let nseg = rng.urange(0, 3);
    enc::ClutterMap {
        date: rng.u16(),
        minutes: rng.below(1440) as u16,
        segments: (0..nseg)
            .map(|_| {
                (0..360)
                    .map(|_| {
                        let z = if rng.chance(1, 30) { rng.urange(0, 25) } else { rng.urange(0, 2) };
                        (0..z).map(|_| (rng.below(3) as u16, rng.below(512) as u16)).collect()
                    })
                    .collect()
            })
            .collect(),
    }
}

fn mutate(rng: &mut Rng, mut b: Vec<u8>) -> Vec<u8> {
    if b.is_empty() {
        return b;
    }
    let k = rng.urange(1, 8);
    for _ in 0..k {
        // bias to the first 128 bytes: headers, counts, pointers
        let pos = if rng.chance(3, 4) {
            rng.usize_below(b.len().min(128))
        } else {
            rng.usize_below(b.len())
        };
        match rng.below(5) {
            0 => b[pos] ^= 1 << rng.below(8),
            1 => b[pos] = rng.u8(),
            2 => b[pos] = *rng.pick(&[0u8, 0xFF, 0x7F, 0x80, 1]),
            3 => {
                // 16-bit extreme at an even position
                let p = pos & !1;
                if p + 1 < b.len() {
                    let v = *rng.pick(&[0u16, 1, 52, 255, 256, 360, 0x7FFF, 0x8000, 0xFFFF]);
                    b[p..p + 2].copy_from_slice(&v.to_be_bytes());
                }
            }
            _ => {
                // 32-bit pointer-ish extreme
                let p = pos & !3;
                if p + 3 < b.len() {
                    let v = *rng.pick(&[0u32, 1, 28, 32, 36, 68, 0x7FFF_FFFF, 0x8000_0000, 0xFFFF_FFFF, 0xFFFF_FFFC]);
                    b[p..p + 4].copy_from_slice(&v.to_be_bytes());
                }
            }
        }
    }
    b
}

const NAME_ALPHABET: &[u8] = b"ABCDEFGHIJKLMNOPQRSTUVWXYZ 0123456789_-\0";

/// Field-directed extreme type-31 stream (header + body).
fn extreme31(rng: &mut Rng) -> Vec<u8> {
    let mh = MsgHeader::realistic(rng, 31);
    let mut body = vec![0u8; 32];
    body[0..4].copy_from_slice(b"KDMX");
    body[4..8].copy_from_slice(&rng.u32().to_be_bytes());
    let date: u16 = match rng.below(4) {
        0 => *rng.pick(&[0u16, 1, 65_535]),
        _ => rng.u16(),
    };
    body[8..10].copy_from_slice(&date.to_be_bytes());
    body[20] = rng.u8();
    body[21] = rng.u8();
    body[22] = rng.u8();
    let count: usize = match rng.below(8) {
        0 => 0,
        1 => 1,
        2 => 65_535,
        3 => rng.urange(11, 300),
        _ => rng.urange(1, 10),
    };
    let declared = count as u16;
    let table_entries = if count == 65_535 && rng.chance(1, 2) { rng.urange(0, 64) } else { count };
    body[30..32].copy_from_slice(&declared.to_be_bytes());
    let table_at = body.len();
    body.resize(table_at + 4 * table_entries, 0);
    // blocks area
    let mut block_offsets: Vec<u32> = Vec::new();
    let nblocks = rng.urange(0, 6);
    for _ in 0..nblocks {
        let at = body.len() as u32;
        block_offsets.push(at);
        let mut blk = vec![0u8; 28];
        blk[0] = *rng.pick(&[b'R', b'D', 0, 0xFF]);
        match rng.below(6) {
            0 => blk[1..4].copy_from_slice(*rng.pick(&[b"VOL", b"ELV", b"RAD"])),
            1 => blk[1..4].copy_from_slice(*rng.pick(&enc::MOMENT_NAMES)),
            2 => {
                // invalid UTF-8
                blk[1] = 0xC3;
                blk[2] = 0x28;
                blk[3] = rng.u8();
            }
            _ => {
                for j in 1..4 {
                    blk[j] = *rng.pick(NAME_ALPHABET);
                }
            }
        }
        let gates: u16 = *rng.pick(&[0u16, 1, 2, 460, 1840, 1841, 65_535, 32_768]);
        let word: u8 = *rng.pick(&[0u8, 1, 7, 8, 9, 15, 16, 24, 32, 64, 255]);
        blk[8..10].copy_from_slice(&gates.to_be_bytes());
        blk[18] = rng.u8();
        blk[19] = word;
        blk[20..24].copy_from_slice(&rng.u32().to_be_bytes());
        blk[24..28].copy_from_slice(&rng.u32().to_be_bytes());
        // supply some, all or none of the declared data
        let want = gates as usize * (word as usize / 8);
        let give = match rng.below(4) {
            0 => 0,
            1 => want.min(4096),
            2 => want.min(200_000),
            _ => rng.usize_below(want.min(4096) + 1),
        };
        body.extend_from_slice(&blk);
        body.extend_from_slice(&rng.bytes(give));
    }
    // pointers
    let body_len = body.len() as u32;
    for i in 0..table_entries {
        let p: u32 = match rng.below(10) {
            0 => 0,                                             // backwards: the data header itself
            1 => rng.below(32) as u32,                          // inside the data header
            2 => (table_at + 4 * rng.usize_below(table_entries.max(1))) as u32, // self-referential
            3 => body_len,                                      // exactly at end
            4 => body_len.wrapping_add(rng.below(1000) as u32), // beyond end
            5 => *rng.pick(&[0x7FFF_FFFFu32, 0x8000_0000, 0xFFFF_FFFF, 0xFFFF_FFFC]),
            6 => body_len.saturating_sub(rng.below(28) as u32), // overlapping the tail
            _ => {
                if block_offsets.is_empty() {
                    rng.below(body_len as u64 + 1) as u32
                } else {
                    // real block, possibly the same one many times (overlapping pointers)
                    *rng.pick(&block_offsets)
                }
            }
        };
        body[table_at + 4 * i..table_at + 4 * i + 4].copy_from_slice(&p.to_be_bytes());
    }
    enc::msg31_bytes(&mh, &body)
}

/// Thousands of pointers that ALL address valid moment blocks (the same few blocks over and
/// over).  A decoder may read each of them, but what it keeps alive must not grow with the
/// pointer count.  Sizes are chosen so that the plain walk stays below the work cap.
fn repeated_pointers31(rng: &mut Rng) -> Vec<u8> {
    let mh = MsgHeader::realistic(rng, 31);
    let count: usize = *rng.pick(&[600usize, 4_000, 20_000, 65_535]);
    let mut body = vec![0u8; 32 + 4 * count];
    body[0..4].copy_from_slice(b"KDMX");
    body[8..10].copy_from_slice(&rng.range(2, 30_000).to_be_bytes()[6..8]);
    body[30..32].copy_from_slice(&(count as u16).to_be_bytes());
    // per-block byte budget so that count * block <= ~44 MiB of reads
    let budget = ((44 * MIB as usize) / count).saturating_sub(28).clamp(1, 60_000);
    let nblocks = rng.urange(1, 4);
    let mut offsets = Vec::new();
    for _ in 0..nblocks {
        let word: u8 = *rng.pick(&[8u8, 16, 32, 64, 248]);
        let gates = (budget / (word as usize / 8)).min(65_535).max(1) as u16;
        let mut blk = vec![0u8; 28];
        blk[0] = b'D';
        blk[1..4].copy_from_slice(*rng.pick(&enc::MOMENT_NAMES));
        blk[8..10].copy_from_slice(&gates.to_be_bytes());
        blk[18] = rng.below(4) as u8;
        blk[19] = word;
        blk[20..24].copy_from_slice(&2.0f32.to_bits().to_be_bytes());
        offsets.push(body.len() as u32);
        body.extend_from_slice(&blk);
        body.extend_from_slice(&rng.bytes(gates as usize * (word as usize / 8)));
    }
    for i in 0..count {
        let p = *rng.pick(&offsets);
        body[32 + 4 * i..32 + 4 * i + 4].copy_from_slice(&p.to_be_bytes());
    }
    enc::msg31_bytes(&mh, &body)
}

fn extreme_vcp(rng: &mut Rng) -> Vec<u8> {
    let n = rng.urange(0, 51);
    let mut v = gen_vcp(rng, n);
    v.hdr.cuts = *rng.pick(&[52u16, 53, 100, 65_535, 0, 51]);
    let mut body = v.encode();
    if rng.chance(1, 2) {
        body.truncate(rng.usize_below(body.len() + 1));
    }
    let mh = MsgHeader::realistic(rng, 5);
    if rng.chance(1, 2) {
        enc::frame(&mh, &body, 0)
    } else {
        let mut f = mh.encode().to_vec();
        f.extend_from_slice(&body);
        f
    }
}

fn extreme_clutter(rng: &mut Rng) -> Vec<u8> {
    let mut b = Vec::new();
    b.extend_from_slice(&rng.u16().to_be_bytes());
    b.extend_from_slice(&rng.u16().to_be_bytes());
    let segs: u16 = *rng.pick(&[0u16, 1, 5, 255, 256, 257, 65_535]);
    b.extend_from_slice(&segs.to_be_bytes());
    let naz = rng.urange(0, 800);
    for _ in 0..naz {
        let zones: u16 = match rng.below(6) {
            0 => 65_535,
            1 => rng.below(26) as u16,
            2 => 20,
            _ => 0,
        };
        b.extend_from_slice(&zones.to_be_bytes());
        let give = if zones == 65_535 {
            *rng.pick(&[0usize, 3, 1000, 65_535])
        } else {
            zones as usize
        };
        b.extend_from_slice(&rng.bytes(give * 4));
    }
    if rng.chance(1, 2) {
        let mh = MsgHeader::realistic(rng, 15);
        let mut f = mh.encode().to_vec();
        f.extend_from_slice(&b);
        f
    } else {
        b
    }
}

/// A run of 2..=6 fixed frames of one type whose headers claim to be segments of a larger message,
/// with counts and numbers from a small hostile domain: "1 of 2" followed by "3 of 3", "0 of 0",
/// "2 of 1", a continuation without an opening segment, a count that changes mid-message ...
/// Each header is well formed on its own; only the sequence is inconsistent.
fn segment_sequence(rng: &mut Rng) -> Vec<u8> {
    let code = *rng.pick(&[15u8, 15, 15, 13, 18, 3, 5, 2, 1, 33]);
    let dom: [u16; 9] = [0, 1, 2, 3, 4, 5, 6, 255, 65535];
    let mut out = Vec::new();
    let n = rng.urange(2, 6);
    let mut count = *rng.pick(&dom);
    // a record may begin in the middle of a segmented message (segment 3 of 5 first) ...
    let first = *rng.pick(&[1usize, 1, 2, 3, 4]);
    for k in 0..n {
        let mut h = MsgHeader::realistic(rng, code);
        if rng.chance(1, 3) {
            count = *rng.pick(&dom);
        }
        h.seg_count = count;
        h.seg_num = match rng.below(4) {
            0 | 3 => (k + first) as u16,
            1 => 1,
            _ => *rng.pick(&dom),
        };
        if rng.chance(1, 8) {
            h.size = *rng.pick(&[0u16, 1, 16, 1216, 0xFFFE]);
        }
        let body = match code {
            15 => {
                // a plausible clutter-map fragment: header + a few azimuths
                let map = enc::ClutterMap { date: rng.u16(), minutes: rng.u16(), segments: vec![(0..360).map(|_| vec![(rng.below(3) as u16, rng.u16()); rng.clone().usize_below(3)]).collect()] };
                let mut b = map.encode();
                b.truncate(enc::FRAME_BODY);
                b
            }
            _ => rng.bytes(64),
        };
        out.extend_from_slice(&enc::frame(&h, &body, 0));
    }
    // ... and end inside its last frame, after that frame's header (a download cut short)
    if rng.chance(1, 3) {
        let keep = out.len() - rng.urange(1, enc::FRAME_BODY - 1);
        out.truncate(keep);
    }
    out
}

/// Two radials; the second one's last pointer is the two's complement of the distance back to a
/// block of the first (or to its own message header).  Read as unsigned it lies far beyond the
/// stream (an error); a decoder that reads block pointers as signed walks backwards, finishes on
/// its own header and decodes the same message again and again.
fn negative_pointer_stream(rng: &mut Rng) -> Vec<u8> {
    let a = gen_radial(rng).bytes().to_vec();
    let mut b = gen_radial(rng).bytes().to_vec();
    let count_of = |m: &[u8]| -> usize { if m.len() >= 60 { u16::from_be_bytes([m[58], m[59]]) as usize } else { 0 } };
    let (na, nb) = (count_of(&a), count_of(&b));
    if na == 0 || nb == 0 || a.len() < 60 + 4 * na || b.len() < 60 + 4 * nb {
        let mut s = a;
        s.extend_from_slice(&b);
        return s;
    }
    // absolute start of the first radial's physically last block
    let last_ptr = (0..na).map(|i| u32::from_be_bytes([a[60 + 4 * i], a[61 + 4 * i], a[62 + 4 * i], a[63 + 4 * i]])).max().unwrap_or(0) as i64;
    let target_abs: i64 = match rng.below(5) {
        0 | 1 | 2 => 28 + last_ptr,                          // a whole block of the previous message
        3 => a.len() as i64,                                  // its own message header
        _ => (a.len() as i64) - 4 * rng.range(1, 40) as i64,  // somewhere shortly before itself
    };
    let start_b = a.len() as i64 + 28;
    let p = (target_abs - start_b) as i32 as u32;
    let slot = 60 + 4 * (nb - 1);
    b[slot..slot + 4].copy_from_slice(&p.to_be_bytes());
    let mut s = a;
    s.extend_from_slice(&b);
    s
}

pub fn gen_input(rng: &mut Rng) -> (Vec<u8>, &'static str) {
    if rng.chance(1, 40) {
        return (repeated_pointers31(rng), "repeated-pointers-type31");
    }
    if rng.chance(1, 25) {
        return (negative_pointer_stream(rng), "negative-pointer-stream");
    }
    if rng.chance(1, 12) {
        return (segment_sequence(rng), "segment-sequence");
    }
    match rng.below(10) {
        0 => {
            let s = valid_stream(rng);
            let cut = rng.usize_below(s.len() + 1);
            (s[..cut].to_vec(), "prefix-of-valid-stream")
        }
        1 => {
            let s = valid_body(rng);
            let cut = rng.usize_below(s.len() + 1);
            (s[..cut].to_vec(), "prefix-of-valid-body")
        }
        2 | 3 => {
            let s = valid_stream(rng);
            (mutate(rng, s), "mutated-stream")
        }
        4 => {
            let s = valid_body(rng);
            (mutate(rng, s), "mutated-body")
        }
        5 | 6 => (extreme31(rng), "extreme-type31"),
        7 => (extreme_vcp(rng), "extreme-vcp"),
        8 => (extreme_clutter(rng), "extreme-clutter-map"),
        _ => {
            let n = match rng.below(4) {
                0 => rng.usize_below(64),
                _ => rng.usize_below(4097),
            };
            let mut b = rng.bytes(n);
            if n > 16 && rng.chance(1, 2) {
                b[15] = *rng.pick(&[31u8, 2, 5, 15]);
            }
            (b, "random-bytes")
        }
    }
}

pub fn run(ctx: &mut Ctx) {
    // --replay with a recorded input: run exactly that byte string through every entry point
    if let Some(hexs) = ctx.replay.as_ref().and_then(|r| r.get("case")).and_then(|c| c.get("input_hex")).and_then(|h| h.as_str()) {
        let full = ctx.replay.as_ref().and_then(|r| r.get("case")).and_then(|c| c.get("input_len")).and_then(|l| l.as_u64()).unwrap_or(0) as usize;
        let input = crate::ev::unhex(hexs);
        if input.len() == full {
            #[allow(unused_mut, unused_variables)]
            let mut rng = Rng::derive(ctx.seed, 0, 0);
            println!("replay: running the recorded {}-byte input alone", input.len());
            run_input(&mut ctx.obs, &input, "replay", true, &mut rng);
            return;
        }
        println!("replay: recorded input was abbreviated; re-running the whole seeded workload");
    }
    ctx.rule = "a case is one byte string run through every decoding entry point (stream, header, type-31, RDA status, VCP, clutter map, contents of sampled or all 256 type codes; bodies also at offset 28) and, for every type-31 that decodes, radial()/into_radial(); \
trivial = shorter than a message header; distinct = distinct input contents (FNV-1a); families: prefixes of valid streams/bodies, 1-8 bit/byte/field mutations biased to headers, field-directed extremes (block count 0/65535, pointers backwards/overlapping/self-referential/beyond end, 40-symbol and invalid-UTF-8 block names, gates 65535, word size 0..255, cut count 52..65535, zone count 65535, 255+ segments), runs of fixed frames whose segment count/number fields are mutually inconsistent, pairs of radials whose second carries a negative (two's-complement) block pointer back into the first, pairwise boundary values in the leading halfwords of every fixed-frame type with a decoder of its own, random bytes; \
verdict monitors: panic hook, reader work <= 64*(plain-walk work + n) + 1 MiB (termination as bounded progress), allocator peak <= 64 MiB + 64*n"
        .into();
    ctx.assumptions = vec![
        "termination is restated as bounded progress: the reader refuses service beyond 64x the work of a plain ICD walk of the same bytes (the unchanged decoder uses about 1.1x)".into(),
        "inputs whose plain walk exceeds 50 MiB of reads are not run (counted as ops_skipped_by_work_cap)".into(),
    ];
    ctx.floor_evaluations = 5_000;
    {
        // a decoder that spins without reading evades the reader budget: CPU-time budget per call
        let (tier, sd) = (ctx.tier, ctx.seed);
        mon::start_cpu_watchdog(CPU_BUDGET_S, move |op, family, input, cpu| {
            crate::ev::report_stuck_and_exit("C04", tier, sd, op, family, input, cpu, CPU_BUDGET_S)
        });
    }
    let total: u64 = ctx.tier.pick(16_000, 1_200_000);
    let seed = ctx.seed;

    // every strict prefix of a few valid streams (deterministic part)
    {
        let mut rng = Rng::derive(seed, 4, 0);
        let streams: Vec<Vec<u8>> = (0..ctx.tier.pick(2, 12))
            .map(|_| {
                let mut s = gen_radial(&mut rng).bytes().to_vec();
                s.extend_from_slice(gen_fixed(&mut rng, 5).bytes());
                s
            })
            .collect();
        let streams_ref = &streams;
        let total_prefixes: u64 = streams.iter().map(|s| s.len() as u64 + 1).sum();
        par_cases(ctx, total_prefixes, |i, obs| {
            let mut k = i as usize;
            for s in streams_ref {
                if k <= s.len() {
                    let mut r = Rng::derive(seed, 4, 1_000_000 + i);
                    run_input(obs, &s[..k], "every-prefix", false, &mut r);
                    obs.count("every_prefix_inputs", 1);
                    return;
                }
                k -= s.len() + 1;
            }
        });
    }

    // ---- pairwise boundary values in the leading halfwords of every fixed-frame type that has a
    //      decoder of its own -------------------------------------------------------------------------------
    // A fixed frame's fields are halfwords; length/pointer/count checks that guard each field alone
    // can still be wrong for a *pair* (pointer + count just past a buffer).  For every type code
    // whose contents decode to something other than the opaque placeholder, every pair of the first
    // 24 body halfwords takes every pair of values from a boundary set around the frame's own sizes.
    {
        const BOUNDARY: [u16; 18] = [0, 1, 2, 3, 99, 100, 101, 2299, 2300, 2301, 2399, 2400, 2401, 2403, 2404, 2405, 0x8000, 0xFFFF];
        let zero = vec![0u8; enc::FRAME_BODY];
        let decoded_types: Vec<u8> = (0..=255u8)
            .filter(|c| *c != 31)
            .filter(|c| {
                let t = message_type_of(*c);
                !matches!(mon::catch(|| decode_message_contents(&mut Cursor::new(&zero[..]), t)), Ok(Ok(MessageContents::Other)))
            })
            .collect();
        ctx.obs.count("fixed_frame_types_with_a_decoder_of_their_own", decoded_types.len() as u64);
        let positions = 24usize;
        let pairs: Vec<(usize, usize)> = (0..positions).flat_map(|i| (i + 1..positions).map(move |j| (i, j))).collect();
        let (types_ref, pairs_ref) = (&decoded_types, &pairs);
        par_cases(ctx, (decoded_types.len() * pairs.len()) as u64, |k, obs| {
            let code = types_ref[k as usize / pairs_ref.len()];
            let (i, j) = pairs_ref[k as usize % pairs_ref.len()];
            let mut rng = Rng::derive(seed, 4, 5_000_000 + k);
            let random_base = rng.bytes(enc::FRAME_BODY);
            for (bi, base) in [&zero, &random_base].into_iter().enumerate() {
                let mut body = base.clone();
                for &vi in &BOUNDARY {
                    for &vj in &BOUNDARY {
                        body[2 * i..2 * i + 2].copy_from_slice(&vi.to_be_bytes());
                        body[2 * j..2 * j + 2].copy_from_slice(&vj.to_be_bytes());
                        run_op(obs, Op::Contents(code), &body, if bi == 0 { "pairwise-halfword-boundaries(zero base)" } else { "pairwise-halfword-boundaries(random base)" });
                    }
                }
            }
            obs.case(mix(0x9a1, k));
            obs.count("pairwise_boundary_frames", 2 * (BOUNDARY.len() * BOUNDARY.len()) as u64);
        });
    }

    par_cases(ctx, total, |i, obs| {
        let mut rng = Rng::derive(seed, 4, 1 + i);
        let (input, family) = gen_input(&mut rng);
        obs.count(&format!("family_{}", family), 1);
        run_input(obs, &input, family, i % 64 == 0, &mut rng);
        if obs.want_sample() && i % 1013 == 5 {
            obs.sample(json!({"family": family, "len": input.len(), "input": crate::ev::hex_abbrev(&input, 64)}));
        }
    });
}
