//! C14 — Message summaries partition the message list and count it faithfully.

use crate::cal;
use crate::enc::{self, gen_msg31, gen_vcp, Block, MsgHeader, Msg31, Vcp};
use crate::ev::{par_cases, Ctx, Obs};
use crate::mon;
use crate::rng::{mix, Rng};
use nexrad_decode::messages::{decode_messages, MessageType};
use nexrad_decode::summarize;
use serde_json::json;
use std::collections::{BTreeMap, BTreeSet};
use std::io::Cursor;

#[derive(Clone)]
pub enum Kind {
    R(Msg31),
    S([u16; 60]),
    V(Vcp),
    O(u8),
}

#[derive(Clone)]
pub struct Item {
    pub hdr: MsgHeader,
    pub kind: Kind,
    pub bytes: Vec<u8>,
}

const VCPS: [u16; 6] = [12, 31, 35, 112, 212, 215];
const MOMENT_LABELS: [&str; 7] = [
    "Reflectivity",
    "Velocity",
    "Spectrum Width",
    "Differential Reflectivity",
    "Differential Phase",
    "Correlation Coefficient",
    "Specific Differential Phase",
];

pub fn gen_item(rng: &mut Rng, sym: u8, elev: u8, uniq: u32) -> Item {
    // unique, strictly positive time per item
    let mut hdr = MsgHeader::realistic(rng, 0);
    hdr.date = rng.range(2, 30_000) as u16;
    // (one time in ten inside the last second of the day: 23:59:59.001 .. 23:59:59.999)
    hdr.time = if rng.chance(1, 10) { 86_399_000 + (uniq % 1000).max(1) } else { (rng.below(80_000) as u32) * 1000 + (uniq % 1000) };
    if sym != b'R' {
        // fixed frames as they really occur: one segment of several (1 of 5 .. 5 of 5), arbitrary
        // halfword counts; a summary counts messages, whatever their headers say about segments
        match rng.below(4) {
            0 => {
                hdr.seg_count = rng.range(2, 9) as u16;
                hdr.seg_num = rng.range(1, hdr.seg_count as u64) as u16;
            }
            1 => {
                hdr.size = rng.range(0, 0xFFFE) as u16;
                hdr.seg_count = rng.u16();
                hdr.seg_num = rng.u16();
            }
            _ => {}
        }
    }
    match sym {
        b'R' => {
            hdr.mtype = 31;
            hdr.size = 0xFFFF;
            let subset = rng.below(1024) as u16;
            let mut m = gen_msg31(rng, subset, false, false);
            m.hdr.elev_num = elev;
            for b in m.blocks.iter_mut() {
                match b {
                    Block::Mom(mo) => {
                        mo.gates %= 8;
                        mo.data.truncate(mo.gates as usize * (mo.word as usize / 8));
                    }
                    Block::Vol(v) => v.vcp = *rng.pick(&VCPS),
                    _ => {}
                }
            }
            let body = m.encode(rng);
            let bytes = enc::msg31_bytes(&hdr, &body);
            Item { hdr, kind: Kind::R(m), bytes }
        }
        b'S' => {
            hdr.mtype = 2;
            let h = enc::gen_rda_status_in_domain(rng);
            let bytes = enc::frame(&hdr, &enc::encode_halfwords(&h), 0);
            Item { hdr, kind: Kind::S(h), bytes }
        }
        b'V' => {
            hdr.mtype = 5;
            let n = rng.urange(0, 20);
            let v = gen_vcp(rng, n);
            let bytes = enc::frame(&hdr, &v.encode(), 0);
            Item { hdr, kind: Kind::V(v), bytes }
        }
        _ => {
            let code = elev; // for 'O' the caller passes the type code here
            hdr.mtype = code;
            let bytes = enc::frame(&hdr, &rng.bytes(64), 0);
            Item { hdr, kind: Kind::O(code), bytes }
        }
    }
}

#[derive(Debug, Clone, PartialEq)]
pub struct WantGroup {
    pub kind: char,
    pub code: u8,
    pub start: usize,
    pub end: usize,
    pub elev: Option<u8>,
    pub continued: bool,
    pub counts: BTreeMap<String, usize>,
}

/// Reference model, computed from the generator's spec only.
pub fn reference(items: &[Item]) -> (Vec<WantGroup>, Option<i64>, Option<i64>, BTreeSet<u16>) {
    let mut groups: Vec<WantGroup> = Vec::new();
    let (mut earliest, mut latest): (Option<i64>, Option<i64>) = (None, None);
    let mut vcps = BTreeSet::new();
    for (i, it) in items.iter().enumerate() {
        let t = cal::icd_epoch_ms(it.hdr.date, it.hdr.time as u64);
        let (kind, code, elev) = match &it.kind {
            Kind::R(m) => ('R', 31, Some(m.hdr.elev_num)),
            Kind::S(_) => ('S', 2, None),
            Kind::V(_) => ('V', 5, None),
            Kind::O(c) => ('O', *c, None),
        };
        if matches!(kind, 'R' | 'S') {
            earliest = Some(earliest.map_or(t, |e: i64| e.min(t)));
            latest = Some(latest.map_or(t, |l: i64| l.max(t)));
        }
        let extend = match groups.last() {
            Some(g) => match kind {
                'R' => g.kind == 'R' && g.elev == elev,
                'O' => g.kind == 'O' && g.code == code,
                _ => false,
            },
            None => false,
        };
        if extend {
            let g = groups.last_mut().expect("group");
            g.end = i;
        } else {
            let continued = kind == 'R' && groups.iter().any(|g| g.kind == 'R' && g.elev == elev);
            groups.push(WantGroup {
                kind,
                code,
                start: i,
                end: i,
                elev,
                continued,
                counts: BTreeMap::new(),
            });
        }
        if let Kind::R(m) = &it.kind {
            let g = groups.last_mut().expect("group");
            for b in &m.blocks {
                match b {
                    Block::Mom(_) => {
                        *g.counts.entry(MOMENT_LABELS[b.slot() - 3].to_string()).or_insert(0) += 1;
                    }
                    Block::Vol(v) => {
                        vcps.insert(v.vcp);
                    }
                    _ => {}
                }
            }
        }
    }
    (groups, earliest, latest, vcps)
}

fn type_matches(mt: MessageType, kind: char, code: u8) -> bool {
    match kind {
        'R' => mt == MessageType::RDADigitalRadarDataGenericFormat,
        'S' => mt == MessageType::RDAStatusData,
        'V' => mt == MessageType::RDAVolumeCoveragePattern,
        _ => {
            // compare through the header decoder's own mapping of this code
            let mut h = [0u8; 28];
            h[15] = code;
            nexrad_decode::messages::decode_message_header(&mut &h[..])
                .map(|d| d.message_type() == mt)
                .unwrap_or(false)
        }
    }
}

pub fn check_list(obs: &mut Obs, items: &[Item], shape: u64) {
    if items.is_empty() {
        obs.case_trivial();
    } else {
        obs.case(shape);
    }
    let kinds: String = items
        .iter()
        .take(80)
        .map(|i| match &i.kind {
            Kind::R(m) => format!("R{}", m.hdr.elev_num),
            Kind::S(_) => "S".into(),
            Kind::V(_) => "V".into(),
            Kind::O(c) => format!("O{}", c),
        })
        .collect::<Vec<_>>()
        .join(" ");
    let mut stream = Vec::new();
    for it in items {
        stream.extend_from_slice(&it.bytes);
    }
    let replay = json!({"kinds": kinds, "messages": items.len(), "stream_hex": crate::ev::hex(&stream[..stream.len().min(12_000)])});
    let msgs = match mon::catch(|| decode_messages(&mut Cursor::new(&stream[..]))) {
        Ok(Ok(m)) if m.len() == items.len() => m,
        other => {
            obs.violation(
                "harness stream does not decode to its messages",
                format!("{:?}", other.map(|r| r.map(|v| v.len()).map_err(|e| format!("{e:?}")))),
                replay,
            );
            return;
        }
    };
    let summary = match mon::catch(|| summarize::messages(&msgs)) {
        Ok(s) => s,
        Err(p) => {
            obs.violation(format!("summarize::messages {}", p.signature()), format!("{} | {}", p.message, kinds), replay);
            return;
        }
    };
    let (want, earliest, latest, vcps) = reference(items);
    let got = &summary.message_groups;

    // tiling and spans
    let mut next = 0usize;
    for (gi, g) in got.iter().enumerate() {
        if g.start_message_index != next || g.end_message_index < g.start_message_index {
            obs.violation(
                "groups do not tile the index range in order",
                format!("group {} spans {}..={}, expected to start at {} | {}", gi, g.start_message_index, g.end_message_index, next, kinds),
                replay,
            );
            return;
        }
        if g.message_count != g.end_message_index - g.start_message_index + 1 {
            obs.violation(
                "group message count differs from its index span",
                format!("group {} spans {}..={} but counts {} | {}", gi, g.start_message_index, g.end_message_index, g.message_count, kinds),
                replay,
            );
            return;
        }
        next = g.end_message_index + 1;
    }
    if next != items.len() {
        obs.violation(
            "groups do not cover the whole list",
            format!("covered 0..{} of {} | {}", next, items.len(), kinds),
            replay,
        );
        return;
    }
    if got.len() != want.len() {
        obs.violation(
            "groups are not the maximal runs",
            format!("expected {} groups, observed {} | {}", want.len(), got.len(), kinds),
            replay,
        );
        return;
    }
    for (gi, (g, w)) in got.iter().zip(want.iter()).enumerate() {
        if g.start_message_index != w.start || g.end_message_index != w.end || !type_matches(g.message_type, w.kind, w.code) {
            obs.violation(
                "groups are not the maximal runs",
                format!("group {}: expected {:?} {}..={}, observed {:?} {}..={} | {}", gi, w.kind, w.start, w.end, g.message_type, g.start_message_index, g.end_message_index, kinds),
                replay,
            );
            return;
        }
        if g.elevation_number != w.elev {
            obs.violation("group elevation number differs", format!("group {}: expected {:?}, observed {:?}", gi, w.elev, g.elevation_number), replay);
            return;
        }
        if g.is_continued != w.continued {
            obs.violation(
                "continuation flag wrong",
                format!("group {} (elevation {:?}): expected continued={}, observed {} | {}", gi, w.elev, w.continued, g.is_continued, kinds),
                replay,
            );
            return;
        }
        let first = &items[w.start];
        let last = &items[w.end];
        let t0 = cal::icd_epoch_ms(first.hdr.date, first.hdr.time as u64);
        let t1 = cal::icd_epoch_ms(last.hdr.date, last.hdr.time as u64);
        if g.start_time.map(|t| t.timestamp_millis()) != Some(t0) || g.end_time.map(|t| t.timestamp_millis()) != Some(t1) {
            obs.violation(
                "group first/last times differ",
                format!("group {}: expected {}..{}, observed {:?}..{:?}", gi, t0, t1, g.start_time, g.end_time),
                replay,
            );
            return;
        }
        if w.kind == 'R' {
            let (Kind::R(f), Kind::R(l)) = (&first.kind, &last.kind) else { return };
            let az_ok = g.start_azimuth.map(|a| a.to_bits()) == Some(f.hdr.az.to_bits())
                && g.end_azimuth.map(|a| a.to_bits()) == Some(l.hdr.az.to_bits());
            if !az_ok {
                obs.violation(
                    "group first/last azimuths differ",
                    format!("group {}: expected {}..{}, observed {:?}..{:?}", gi, f.hdr.az, l.hdr.az, g.start_azimuth, g.end_azimuth),
                    replay,
                );
                return;
            }
            if g.elevation_angle.map(|a| a.to_bits()) != Some(f.hdr.elev.to_bits()) {
                obs.violation("group elevation angle is not the first member's", format!("group {}", gi), replay);
                return;
            }
            let got_counts: BTreeMap<String, usize> = g
                .data_types
                .clone()
                .unwrap_or_default()
                .into_iter()
                .filter(|(_, v)| *v > 0)
                .collect();
            if got_counts != w.counts {
                obs.violation(
                    "per-group data-type counts differ",
                    format!("group {} ({}..={}): expected {:?}, observed {:?}", gi, w.start, w.end, w.counts, got_counts),
                    replay,
                );
                return;
            }
        } else if g.data_types.as_ref().map(|d| !d.is_empty()).unwrap_or(false) {
            obs.violation("non-radial group has data-type counts", format!("group {}", gi), replay);
            return;
        }
        match (&first.kind, w.kind) {
            (Kind::S(h), 'S') => {
                let Some(info) = &g.rda_status_info else {
                    obs.violation("status group lacks status info", format!("group {}", gi), replay);
                    return;
                };
                let vcp = h[7] as i16;
                let ok = info.average_transmitter_power == h[4]
                    && info.vcp_number == if vcp == 0 { None } else { Some(vcp.abs()) }
                    && info.vcp_is_local == (vcp < 0)
                    && info.has_alarms == (h[14] != 0)
                    && info.rda_status == match h[0] { 2 => "StartUp", 4 => "Standby", 8 => "Restart", _ => "Operate" }
                    && info.operational_mode == if h[10] == 4 { "Operational" } else { "Maintenance" }
                    && info.super_resolution_status == if h[11] == 2 { "Enabled" } else { "Disabled" }
                    && info.active_alarms.len() == (h[14] & 0x7F).count_ones() as usize
                    && info.scan_data_info.first().map(|s| s.as_str()) == Some(if h[13] & 2 != 0 { "AVSET enabled" } else { "AVSET disabled" });
                if !ok {
                    obs.violation(
                        "status group info does not mirror the status message",
                        format!("group {}: {:?}", gi, info),
                        replay,
                    );
                    return;
                }
            }
            (Kind::V(v), 'V') => {
                let ok = g
                    .vcp_info
                    .as_ref()
                    .map(|i| i.pattern_number == v.hdr.pattern_number && i.elevations.len() == v.cuts.len() && i.number_of_elevation_cuts == v.hdr.cuts)
                    .unwrap_or(false);
                if !ok {
                    obs.violation("VCP group info does not mirror the VCP message", format!("group {}", gi), replay);
                    return;
                }
            }
            _ => {}
        }
    }
    // collection time range and VCP set
    let ge = summary.earliest_collection_time.map(|t| t.timestamp_millis());
    let gl = summary.latest_collection_time.map(|t| t.timestamp_millis());
    if ge != earliest || gl != latest {
        obs.violation(
            "collection-time range differs",
            format!("expected {:?}..{:?}, observed {:?}..{:?} | {}", earliest, latest, ge, gl, kinds),
            replay,
        );
        return;
    }
    let got_vcps: BTreeSet<String> = summary.volume_coverage_patterns.iter().map(|v| format!("{:?}", v)).collect();
    let want_vcps: BTreeSet<String> = vcps.iter().map(|n| format!("VCP{}", n)).collect();
    if got_vcps != want_vcps {
        obs.violation("VCP set differs", format!("expected {:?}, observed {:?}", want_vcps, got_vcps), replay);
        return;
    }
    obs.count("summaries_equal_to_reference", 1);
    obs.count("groups_checked", want.len() as u64);
    obs.count("messages_summarized", items.len() as u64);
    if obs.want_sample() && items.len() > 3 && shape % 97 == 5 {
        obs.sample(json!({"kinds": kinds, "expected_groups": want.iter().take(12).map(|g| json!({"kind": g.kind.to_string(), "span": [g.start, g.end], "elev": g.elev, "continued": g.continued})).collect::<Vec<_>>()}));
    }
}

pub fn run(ctx: &mut Ctx) {
    ctx.rule = "a case is one message list produced as bytes by the encoders (radials with any elevation/block subset/VOL VCP in {12,31,35,112,212,215}, in-domain status, VCP, other type codes), decoded by decode_messages and summarized; \
trivial = empty list; distinct = distinct kind strings; oracle = 60-line reference model from the generator's spec: tiling, count == span, maximal runs with status/VCP singletons, continued iff an earlier radial group has the elevation, per-group data-type counts, first/last azimuth and time, min/max time over radial+status, VCP set, status/VCP info mirrors"
        .into();
    ctx.exhaustive = Some("every kind string of length <= 6 over {R(e=1), R(e=2), S, V, O(3), O(18)}: 55,987 lists".into());
    ctx.assumptions = vec!["message dates >= 2 so every radial/status message is 'timestamped'; status coded fields within documented domains".into()];
    ctx.floor_evaluations = 1_000;
    let seed = ctx.seed;

    // ---- exhaustive small scope ------------------------------------------------------------------------
    // 6 symbols x 6 positions: distinct time/azimuth per position
    let mut rng = Rng::derive(seed, 14, 0);
    let symbols: [(u8, u8); 6] = [(b'R', 1), (b'R', 2), (b'S', 0), (b'V', 0), (b'O', 3), (b'O', 18)];
    let table: Vec<Vec<Item>> = symbols
        .iter()
        .map(|(s, e)| (0..6).map(|pos| gen_item(&mut rng, *s, *e, pos * 7 + 1)).collect())
        .collect();
    let mut lists: Vec<Vec<usize>> = vec![vec![]];
    for len in 1..=6usize {
        for code in 0..6usize.pow(len as u32) {
            let mut c = code;
            lists.push(
                (0..len)
                    .map(|_| {
                        let v = c % 6;
                        c /= 6;
                        v
                    })
                    .collect(),
            );
        }
    }
    let table_ref = &table;
    let lists_ref = &lists;
    par_cases(ctx, lists.len() as u64, |i, obs| {
        let items: Vec<Item> = lists_ref[i as usize]
            .iter()
            .enumerate()
            .map(|(pos, &s)| table_ref[s][pos].clone())
            .collect();
        check_list(obs, &items, mix(140, i));
    });

    // ---- random lists ------------------------------------------------------------------------------------
    let total: u64 = ctx.tier.pick(3_000, 150_000);
    par_cases(ctx, total, |i, obs| {
        let mut rng = Rng::derive(seed, 14, 1 + i);
        let len = match rng.below(6) {
            0 => rng.urange(300, 500),
            1 => rng.urange(1, 8),
            _ => rng.urange(8, 120),
        };
        let mut items: Vec<Item> = Vec::with_capacity(len);
        let mut elev = rng.range(1, 5) as u8;
        let mut shape = mix(141, len as u64);
        for k in 0..len {
            // a message sent twice: equal to its predecessor in every byte, still a message of the list
            if !items.is_empty() && rng.chance(1, 12) {
                let prev: Item = items[items.len() - 1].clone();
                shape = mix(shape, 7777);
                items.push(prev);
                continue;
            }
            // a burst of frames without a decoder whose type codes are neighbours (24, 25, 24, 26 ...):
            // every change of type code opens a new group, however alike the types are
            if rng.chance(1, 24) {
                let base = loop {
                    let c = rng.below(253) as u8;
                    if ![2u8, 5, 31].iter().any(|t| (c..=c + 2).contains(t)) {
                        break c;
                    }
                };
                for j in 0..rng.urange(2, 6) {
                    let c = base + [0u8, 1, 0, 2, 1, 1][j % 6];
                    let it = gen_item(&mut rng, b'O', c, (k * 8 + j) as u32);
                    shape = mix(shape, 2000 + c as u64);
                    items.push(it);
                }
                continue;
            }
            let it = match rng.below(12) {
                0 => gen_item(&mut rng, b'S', 0, k as u32),
                1 => gen_item(&mut rng, b'V', 0, k as u32),
                2 => {
                    let c = *rng.pick(&[3u8, 18, 15, 13, 1, 0, 255, 77]);
                    gen_item(&mut rng, b'O', c, k as u32)
                }
                _ => {
                    if rng.chance(1, 9) {
                        elev = rng.range(0, 6) as u8;
                    }
                    gen_item(&mut rng, b'R', elev, k as u32)
                }
            };
            shape = mix(shape, match &it.kind { Kind::R(m) => m.hdr.elev_num as u64, Kind::S(_) => 1000, Kind::V(_) => 1001, Kind::O(c) => 2000 + *c as u64 });
            items.push(it);
        }
        check_list(obs, &items, shape);
    });
}
