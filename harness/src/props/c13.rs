//! C13 — Clutter filter map decodes to the encoded segment/azimuth/zone structure.

use crate::cal;
use crate::enc::ClutterMap;
use crate::ev::{par_cases, Ctx, Obs};
use crate::mon;
use crate::rng::{mix, Rng};
use nexrad_decode::messages::clutter_filter_map::{decode_clutter_filter_map, Message, OpCode};
use serde_json::json;

fn decode(b: &[u8]) -> Result<Message, String> {
    match mon::catch(|| decode_clutter_filter_map(&mut &b[..])) {
        // (every other result is handed on as a clone: a copy holds what the original holds)
        Ok(Ok(m)) => Ok(if b.len() % 2 == 0 { m.clone() } else { m }),
        Ok(Err(e)) => Err(format!("error {e:?}")),
        Err(p) => Err(p.signature()),
    }
}

pub fn gen_map(rng: &mut Rng, nseg: usize, big_zone_azimuth: bool) -> ClutterMap {
    let big_at = if big_zone_azimuth && nseg > 0 {
        Some((rng.usize_below(nseg), rng.usize_below(360)))
    } else {
        None
    };
    let dense = rng.chance(1, 4);
    // whole elevation segments without a single range zone (all 360 azimuths declare 0): still
    // segments of the map, wherever they sit - trailing, leading, in the middle, or all of them
    let empty: Vec<bool> = match rng.below(12) {
        0 | 1 => {
            let k = rng.urange(1, 3);
            (0..nseg).map(|s| s + k >= nseg).collect()
        }
        2 => (0..nseg).map(|s| s == 0).collect(),
        3 | 4 => (0..nseg).map(|_| rng.chance(1, 3)).collect(),
        5 => vec![true; nseg],
        _ => vec![false; nseg],
    };
    ClutterMap {
        date: rng.range(1, 65_535) as u16,
        minutes: rng.below(1440) as u16,
        segments: (0..nseg)
            .map(|s| {
                (0..360)
                    .map(|a| {
                        let z = if empty[s] {
                            0
                        } else if Some((s, a)) == big_at {
                            *rng.pick(&[26usize, 100, 1000, 65_535])
                        } else if dense {
                            rng.urange(0, 25)
                        } else {
                            match rng.below(8) {
                                0 => 0,
                                1 => 25,
                                2 => 20,
                                _ => rng.urange(1, 4),
                            }
                        };
                        let mut zones: Vec<(u16, u16)> = Vec::with_capacity(z);
                        for _ in 0..z {
                            // a zone may repeat its predecessor exactly: still a zone of its own
                            if !zones.is_empty() && rng.chance(1, 6) {
                                let prev = zones[zones.len() - 1];
                                zones.push(prev);
                                continue;
                            }
                            let end = match rng.below(8) {
                                0 => 511,
                                1 | 2 | 3 => rng.below(512) as u16,
                                _ => rng.u16(),
                            };
                            zones.push((rng.below(3) as u16, end));
                        }
                        zones
                    })
                    .collect()
            })
            .collect(),
    }
}

fn check_map(obs: &mut Obs, spec: &ClutterMap, rng: &mut Rng, shape: u64, cuts: usize) {
    obs.case(shape);
    let (bytes, bounds) = spec.encode_with_boundaries();
    let nzones: usize = spec.segments.iter().flat_map(|s| s.iter()).map(|a| a.len()).sum();
    let replay = json!({"segments": spec.segments.len(), "zones": nzones, "len": bytes.len(),
        "date": spec.date, "minutes": spec.minutes, "body_hex": crate::ev::hex(&bytes[..bytes.len().min(8192)])});
    let m = match decode(&bytes) {
        Ok(m) => m,
        Err(e) => {
            obs.violation(format!("well-formed clutter map refused: {}", e), "", replay);
            return;
        }
    };
    // a reader that fails once, transiently, inside the map: an error is fine, the right map is fine
    if shape % 4 == 1 {
        match super::decode_through_flaky_reader(&bytes, shape, |rd| decode_clutter_filter_map(rd)) {
            Err(p) => {
                obs.violation("decode_clutter_filter_map panics with a reader that fails transiently", p, replay);
                return;
            }
            Ok(Some(m2)) if m2 != m || format!("{:?}", m2) != format!("{:?}", m) => {
                obs.violation("a transient read error inside the map yields a map decoded from other bytes", "", replay);
                return;
            }
            Ok(Some(_)) => obs.count("transient_read_errors_survived_with_the_right_map", 1),
            Ok(None) => obs.count("transient_read_errors_reported_as_errors", 1),
        }
    }
    // the same bytes through a reader that returns short reads must decode identically
    {
        let mut rd = mon::DribbleReader::new(std::io::Cursor::new(&bytes[..]), shape);
        match mon::catch(|| decode_clutter_filter_map(&mut rd)) {
            Ok(Ok(m2)) if m2 == m => obs.count("short_read_decodes_identical", 1),
            other => {
                obs.violation(
                    "decoding depends on how the reader chunks the bytes (short reads)",
                    format!("{:?}", other.map(|r| r.map(|m| m.elevation_segments.len()).map_err(|e| format!("{e:?}")))),
                    replay,
                );
                return;
            }
        }
    }
    // header
    if m.header.map_generation_date != spec.date
        || m.header.map_generation_time != spec.minutes
        || m.header.elevation_segment_count as usize != spec.segments.len()
    {
        obs.violation(
            "header fields differ",
            format!(
                "wrote ({}, {}, {}), decoded ({}, {}, {})",
                spec.date,
                spec.minutes,
                spec.segments.len(),
                m.header.map_generation_date,
                m.header.map_generation_time,
                m.header.elevation_segment_count
            ),
            replay,
        );
        return;
    }
    let want_ms = cal::icd_epoch_ms(spec.date, spec.minutes as u64 * 60_000);
    match mon::catch(|| m.header.date_time()) {
        Ok(Some(dt)) if dt.timestamp_millis() == want_ms => {}
        other => {
            obs.violation(
                "generation date-time differs",
                format!("expected epoch ms {}, observed {:?}", want_ms, other.ok().flatten()),
                replay,
            );
            return;
        }
    }
    if m.elevation_segments.len() != spec.segments.len() {
        obs.violation(
            "elevation segment count differs",
            format!("wrote {}, decoded {}", spec.segments.len(), m.elevation_segments.len()),
            replay,
        );
        return;
    }
    let base = m.elevation_segments.first().map(|s| s.elevation_segment_number as i64).unwrap_or(0);
    for (si, (gs, ws)) in m.elevation_segments.iter().zip(spec.segments.iter()).enumerate() {
        if gs.elevation_segment_number as i64 != base + si as i64 {
            obs.violation(
                "elevation segments are not numbered consecutively",
                format!("segment {} has number {} (first is {})", si, gs.elevation_segment_number, base),
                replay,
            );
            return;
        }
        if gs.azimuth_segments.len() != 360 {
            obs.violation(
                "an elevation segment does not hold 360 azimuth segments",
                format!("segment {}: {}", si, gs.azimuth_segments.len()),
                replay,
            );
            return;
        }
        for (ai, (ga, wa)) in gs.azimuth_segments.iter().zip(ws.iter()).enumerate() {
            if ga.azimuth_segment as usize != ai {
                obs.violation(
                    "azimuth segments are not numbered 0..=359",
                    format!("segment {} position {} has number {}", si, ai, ga.azimuth_segment),
                    replay,
                );
                return;
            }
            if ga.header.range_zone_count as usize != wa.len() || ga.range_zones.len() != wa.len() {
                obs.violation(
                    "range zone count differs",
                    format!(
                        "segment {} azimuth {}: wrote {}, header {}, decoded {}",
                        si,
                        ai,
                        wa.len(),
                        ga.header.range_zone_count,
                        ga.range_zones.len()
                    ),
                    replay,
                );
                return;
            }
            for (zi, (gz, (op, end))) in ga.range_zones.iter().zip(wa.iter()).enumerate() {
                if gz.op_code != *op || gz.end_range != *end {
                    obs.violation(
                        "range zone differs",
                        format!(
                            "segment {} azimuth {} zone {}: wrote ({}, {}), decoded ({}, {})",
                            si, ai, zi, op, end, gz.op_code, gz.end_range
                        ),
                        replay,
                    );
                    return;
                }
                let want = match op {
                    0 => OpCode::BypassFilter,
                    1 => OpCode::BypassMapInControl,
                    _ => OpCode::ForceFilter,
                };
                match mon::catch(|| gz.op_code()) {
                    Ok(o) if o == want => {}
                    Ok(o) => {
                        obs.violation(
                            format!("op_code() wrong meaning for code {}", op),
                            format!("expected {:?}, observed {:?}", want, o),
                            replay,
                        );
                        return;
                    }
                    Err(p) => {
                        obs.violation(format!("op_code() {}", p.signature()), p.message, replay);
                        return;
                    }
                }
            }
        }
    }
    obs.count("maps_structure_exact", 1);
    obs.count("range_zones_checked", nzones as u64);
    obs.max("segments_in_a_map", spec.segments.len() as u64);

    // truncation: any strict prefix is an error
    let mut cut_points: Vec<usize> = Vec::new();
    for _ in 0..cuts {
        if bounds.is_empty() {
            break;
        }
        let b = *rng.pick(&bounds);
        for d in -3i64..=3 {
            let c = b as i64 + d;
            if c >= 0 && (c as usize) < bytes.len() {
                cut_points.push(c as usize);
            }
        }
        cut_points.push(rng.usize_below(bytes.len()));
    }
    for c in [0usize, 1, 5, 6, 7, bytes.len().saturating_sub(1), bytes.len().saturating_sub(2), bytes.len().saturating_sub(4)] {
        if c < bytes.len() {
            cut_points.push(c);
        }
    }
    cut_points.sort();
    cut_points.dedup();
    for c in cut_points {
        // a strict prefix is incomplete unless everything after it is structurally empty — which
        // cannot happen: the last byte always belongs to a declared field
        match decode(&bytes[..c]) {
            Err(_) => obs.count("truncated_bodies_rejected", 1),
            Ok(_) => {
                obs.violation(
                    "body that ends before the declared structure is complete accepted",
                    format!("{} of {} bytes, {} segments declared", c, bytes.len(), spec.segments.len()),
                    json!({"cut": c, "segments": spec.segments.len(), "len": bytes.len(), "body_hex": crate::ev::hex(&bytes[..c.min(4096)])}),
                );
                return;
            }
        }
    }
}

pub fn run(ctx: &mut Ctx) {
    ctx.rule = "a case is one hand-encoded clutter filter map body (date, minutes, s segments x 360 azimuths x declared zones) decoded by decode_clutter_filter_map, plus truncations at structural boundaries +/-3 bytes and random points; \
distinct = distinct (segment count, zone density, seed); oracle = structure equality with the generator's tree, consecutive segment numbers, azimuth numbers 0..=359, op codes 0/1/2 => bypass / bypass-map-in-control / force, calendar instant, strict prefix => error"
        .into();
    ctx.exhaustive = Some(match ctx.tier {
        crate::ev::Tier::Quick => "segment counts {0,1,2,3,5,8,16,255} plus seeded counts; zone counts 0..=25 all occur",
        crate::ev::Tier::Thorough => "all segment counts 0..=255; zone counts 0..=25 all occur, 26..65535 sampled on one azimuth",
    }.into());
    ctx.floor_evaluations = 20;
    let seed = ctx.seed;
    let counts: Vec<usize> = match ctx.tier {
        crate::ev::Tier::Quick => {
            let mut v = vec![0usize, 1, 2, 3, 5, 8, 16, 255];
            let mut rng = Rng::derive(seed, 13, 0);
            for _ in 0..500 {
                v.push(rng.urange(0, 12));
            }
            v.extend([40usize, 100, 200, 254]);
            v
        }
        crate::ev::Tier::Thorough => {
            let mut v: Vec<usize> = (0..=255).collect();
            v.extend(0..=60usize);
            v
        }
    };
    let counts_ref = &counts;
    par_cases(ctx, counts.len() as u64, |i, obs| {
        let mut rng = Rng::derive(seed, 13, 1 + i);
        let n = counts_ref[i as usize];
        let spec = gen_map(&mut rng, n, i % 3 == 0);
        check_map(obs, &spec, &mut rng, mix(130, mix(n as u64, i)), if n > 50 { 6 } else { 40 });
        // every other map is followed at once by one that carries the same generation stamp and
        // segment count (the same first six bytes) and other zones: the same map regenerated
        // within the minute, say.  It must decode to its own structure.
        if i % 2 == 0 && n <= 50 {
            let mut other = gen_map(&mut rng, n, i % 3 == 1);
            other.date = spec.date;
            other.minutes = spec.minutes;
            obs.count("maps_followed_by_one_with_the_same_generation_stamp", 1);
            check_map(obs, &other, &mut rng, mix(131, mix(n as u64, i)), 2);
        }
        if obs.want_sample() && i % 5 == 1 {
            obs.sample(json!({"segments": n, "date": spec.date, "minutes": spec.minutes,
                "first_azimuth_zones": spec.segments.first().and_then(|s| s.first()).map(|z| z.iter().take(4).collect::<Vec<_>>())}));
        }
    });
}
