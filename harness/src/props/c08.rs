//! C08 — ICD date/time fields decode to the exact UTC instant.
//!
//! Exhaustive over all 65,535 in-range day counts for every accessor; oracle is the harness's own
//! integer calendar (cal.rs), never chrono.

use crate::cal;
use crate::ev::Ctx;
use crate::mon;
use crate::rng::{mix, Rng};
use chrono::{DateTime, Datelike, Timelike, Utc};
use serde_json::json;
use std::io::Cursor;

#[derive(Clone, Copy, Debug, PartialEq, Eq)]
enum Acc {
    MessageHeader,
    RadialHeader,
    RadialModel,
    VolumeHeader,
    BypassMap,
    ClutterMapStatus,
    ClutterFilterMap,
}

impl Acc {
    fn name(&self) -> &'static str {
        match self {
            Acc::MessageHeader => "MessageHeader::date_time",
            Acc::RadialHeader => "digital_radar_data::Header::date_time",
            Acc::RadialModel => "Radial::collection_timestamp",
            Acc::VolumeHeader => "volume::Header::date_time",
            Acc::BypassMap => "rda_status::bypass_map_generation_date_time",
            Acc::ClutterMapStatus => "rda_status::clutter_filter_map_generation_date_time",
            Acc::ClutterFilterMap => "clutter_filter_map::Header::date_time",
        }
    }
    fn minutes(&self) -> bool {
        matches!(
            self,
            Acc::BypassMap | Acc::ClutterMapStatus | Acc::ClutterFilterMap
        )
    }
}

const MS_ACCS: [Acc; 4] = [
    Acc::MessageHeader,
    Acc::RadialHeader,
    Acc::RadialModel,
    Acc::VolumeHeader,
];
const MIN_ACCS: [Acc; 3] = [Acc::BypassMap, Acc::ClutterMapStatus, Acc::ClutterFilterMap];

/// Evaluate one accessor on (date field, time field) through its public decoder.
/// Returns the accessor's result as epoch milliseconds plus the chrono value for field checks.
fn eval(acc: Acc, date: u32, time: u32) -> Result<Option<(i64, Option<DateTime<Utc>>)>, String> {
    match acc {
        Acc::MessageHeader => {
            let mut b = [0u8; 28];
            b[15] = 2;
            b[18..20].copy_from_slice(&(date as u16).to_be_bytes());
            b[20..24].copy_from_slice(&time.to_be_bytes());
            let h = nexrad_decode::messages::decode_message_header(&mut &b[..])
                .map_err(|e| format!("decode_message_header: {e:?}"))?;
            Ok(h.date_time().map(|dt| (dt.timestamp_millis(), Some(dt))))
        }
        Acc::RadialHeader | Acc::RadialModel => {
            let mut b = [0u8; 32];
            b[0..4].copy_from_slice(b"KDMX");
            b[4..8].copy_from_slice(&time.to_be_bytes());
            b[8..10].copy_from_slice(&(date as u16).to_be_bytes());
            let m = nexrad_decode::messages::digital_radar_data::decode_digital_radar_data(
                &mut Cursor::new(&b[..]),
            )
            .map_err(|e| format!("decode_digital_radar_data: {e:?}"))?;
            if acc == Acc::RadialHeader {
                Ok(m.header
                    .date_time()
                    .map(|dt| (dt.timestamp_millis(), Some(dt))))
            } else {
                match m.radial() {
                    Ok(r) => Ok(Some((r.collection_timestamp(), None))),
                    Err(_) => Ok(None),
                }
            }
        }
        // (the volume header lives in nexrad-data; in the reduced-feature lane, which is built
        // without that crate, this accessor stands in for itself through the message header)
        #[cfg(not(feature = "data"))]
        Acc::VolumeHeader => eval(Acc::MessageHeader, date & 0xFFFF, time),
        #[cfg(feature = "data")]
        Acc::VolumeHeader => {
            let mut b = [0u8; 24];
            b[0..9].copy_from_slice(b"AR2V0006.");
            b[9..12].copy_from_slice(b"001");
            b[12..16].copy_from_slice(&date.to_be_bytes());
            b[16..20].copy_from_slice(&time.to_be_bytes());
            b[20..24].copy_from_slice(b"KDMX");
            let h = if (date ^ time) % 4 == 0 {
                // in pieces, as from a socket or a chained reader
                let mut rd = mon::DribbleReader::new(Cursor::new(&b[..]), (date as u64) << 32 | time as u64);
                nexrad_data::volume::Header::deserialize(&mut rd)
            } else {
                nexrad_data::volume::Header::deserialize(&mut &b[..])
            }
            .map_err(|e| format!("volume::Header::deserialize: {e:?}"))?;
            Ok(h.date_time().map(|dt| (dt.timestamp_millis(), Some(dt))))
        }
        Acc::BypassMap | Acc::ClutterMapStatus => {
            let mut b = [0u8; 120];
            let (dh, th) = if acc == Acc::BypassMap { (18, 19) } else { (20, 21) };
            b[dh * 2..dh * 2 + 2].copy_from_slice(&(date as u16).to_be_bytes());
            b[th * 2..th * 2 + 2].copy_from_slice(&(time as u16).to_be_bytes());
            let m = nexrad_decode::messages::rda_status_data::decode_rda_status_message(&mut &b[..])
                .map_err(|e| format!("decode_rda_status_message: {e:?}"))?;
            let dt = if acc == Acc::BypassMap {
                m.bypass_map_generation_date_time()
            } else {
                m.clutter_filter_map_generation_date_time()
            };
            Ok(dt.map(|dt| (dt.timestamp_millis(), Some(dt))))
        }
        Acc::ClutterFilterMap => {
            let mut b = [0u8; 6];
            b[0..2].copy_from_slice(&(date as u16).to_be_bytes());
            b[2..4].copy_from_slice(&(time as u16).to_be_bytes());
            let m = nexrad_decode::messages::clutter_filter_map::decode_clutter_filter_map(
                &mut &b[..],
            )
            .map_err(|e| format!("decode_clutter_filter_map: {e:?}"))?;
            Ok(m.header
                .date_time()
                .map(|dt| (dt.timestamp_millis(), Some(dt))))
        }
    }
}

fn check_in_range(ctx: &mut Ctx, acc: Acc, d: u16, t: u32, tclass: u64, prev: &mut Option<i64>) {
    let t_ms: u64 = if acc.minutes() {
        t as u64 * 60_000
    } else {
        t as u64
    };
    let expected = cal::icd_epoch_ms(d, t_ms);
    ctx.obs
        .case(mix(mix(acc as u64, d as u64), tclass));
    let replay = json!({"accessor": acc.name(), "date": d, "time": t});
    match mon::catch(|| eval(acc, d as u32, t)) {
        Err(p) => ctx.obs.violation(
            format!("{} {}", acc.name(), p.signature()),
            format!("panic at {}:{}: {}", p.file, p.line, p.message),
            replay,
        ),
        Ok(Err(e)) => ctx.obs.violation(
            format!("{} decode-error", acc.name()),
            format!("decoder refused a well-formed input: {e}"),
            replay,
        ),
        Ok(Ok(None)) => ctx.obs.violation(
            format!("{} none-in-range", acc.name()),
            format!("accessor returned None for d={d} t={t}"),
            replay,
        ),
        Ok(Ok(Some((got, dt)))) => {
            if got != expected {
                ctx.obs.violation(
                    format!("{} wrong-instant", acc.name()),
                    format!("d={d} t={t}: expected epoch ms {expected}, observed {got}"),
                    replay,
                );
                return;
            }
            if let Some(dt) = dt {
                let c = cal::civil_from_epoch_ms(expected);
                let ok = dt.year() as i64 == c.year
                    && dt.month() == c.month
                    && dt.day() == c.day
                    && dt.hour() == c.hour
                    && dt.minute() == c.minute
                    && dt.second() == c.second
                    && dt.timestamp_subsec_millis() == c.milli;
                if !ok {
                    ctx.obs.violation(
                        format!("{} wrong-civil-fields", acc.name()),
                        format!("d={d} t={t}: expected {c:?}, observed {dt:?}"),
                        replay,
                    );
                    return;
                }
            }
            if let Some(p) = *prev {
                if got <= p {
                    ctx.obs.violation(
                        format!("{} not-increasing", acc.name()),
                        format!("d={d} t={t}: {got} after {p}"),
                        replay,
                    );
                }
            }
            *prev = Some(got);
            ctx.obs.count("instants_equal_to_calendar", 1);
            if ctx.obs.want_sample() && (d == 1 || d == 19_000 || d == 65_535) {
                let c = cal::civil_from_epoch_ms(expected);
                ctx.obs.sample(json!({
                    "accessor": acc.name(), "date_field": d, "time_field": t,
                    "expected_epoch_ms": expected, "observed_epoch_ms": got,
                    "civil": format!("{:04}-{:02}-{:02}T{:02}:{:02}:{:02}.{:03}Z", c.year, c.month, c.day, c.hour, c.minute, c.second, c.milli),
                }));
            }
        }
    }
}

/// One (accessor, day, time) point judged on a worker thread (the striped sweep below).
fn check_point(obs: &mut crate::ev::Obs, acc: Acc, d: u16, t: u32) {
    let t_ms: u64 = if acc.minutes() { t as u64 * 60_000 } else { t as u64 };
    let expected = cal::icd_epoch_ms(d, t_ms);
    obs.case(mix(mix(0x57a + acc as u64, d as u64), t as u64));
    let replay = json!({"accessor": acc.name(), "date": d, "time": t, "phase": "days handed to all worker threads in ascending order"});
    match mon::catch(|| eval(acc, d as u32, t)) {
        Err(p) => obs.violation(format!("{} {}", acc.name(), p.signature()), format!("panic at {}:{}: {}", p.file, p.line, p.message), replay),
        Ok(Ok(Some((got, _)))) if got == expected => obs.count("instants_equal_to_calendar_in_the_striped_sweep", 1),
        Ok(other) => obs.violation(
            format!("{} wrong-instant", acc.name()),
            format!("d={d} t={t}: expected {expected}, observed {:?} (days handed to all worker threads in ascending order)", other.map(|o| o.map(|x| x.0))),
            replay,
        ),
    }
}

fn check_no_panic(ctx: &mut Ctx, acc: Acc, date: u32, time: u32) {
    ctx.obs.case(mix(mix(1000 + acc as u64, date as u64), time as u64));
    let replay = json!({"accessor": acc.name(), "date": date, "time": time, "clause": "no-panic"});
    match mon::catch(|| eval(acc, date, time)) {
        Err(p) => ctx.obs.violation(
            format!("{} out-of-range {}", acc.name(), p.signature()),
            format!(
                "panic at {}:{} for date={date} time={time}: {}",
                p.file, p.line, p.message
            ),
            replay,
        ),
        Ok(_) => ctx.obs.count("out_of_range_returned_without_panic", 1),
    }
}

pub fn run(ctx: &mut Ctx) {
    ctx.rule = "every (accessor, day count d, time t) is one case, reached through the accessor's public decoder; \
distinct = distinct (accessor, d, t-class); oracle = harness integer calendar: epoch ms == (d-1)*86_400_000 + t, civil fields equal, strictly increasing in (d,t), decode-crate and data-crate copies agree"
        .into();
    ctx.exhaustive = Some(
        "all 65,535 day counts 1..=65535 for each of 7 accessors (x 7 ms values / x 3 minute values); all 1440 minutes on 4 days"
            .into(),
    );
    ctx.assumptions = vec![
        "the harness calendar (Hinnant civil_from_days) is correct; it is self-checked against day-by-day counting over 66,000 days at start-up".into(),
    ];
    ctx.floor_evaluations = 1_000_000;

    let mut rng = Rng::derive(ctx.seed, 8, 0);
    let r1 = rng.below(86_400_000) as u32;
    let r2 = rng.below(86_400_000) as u32;
    let r3 = rng.below(86_400_000) as u32;
    let mut ts: Vec<u32> = vec![0, 1, 43_200_000, 86_399_999, r1, r2, r3];
    if ctx.tier == crate::ev::Tier::Thorough {
        // thorough: 40 further seeded times of day and every boundary of an hour
        for _ in 0..40 {
            ts.push(rng.below(86_400_000) as u32);
        }
        for h in 1..24u32 {
            ts.push(h * 3_600_000);
            ts.push(h * 3_600_000 - 1);
        }
    }
    ts.sort();
    ts.dedup();

    // First of all, while nothing in the process has seen a date yet: the day counts 1..=65535 in
    // ascending order, handed out one by one to all worker threads at once, every accessor on each.
    // At any moment a dozen threads ask for days nobody has asked for before - whatever the library
    // builds or extends on first sight of a day is built and extended under contention.
    {
        let ts = ts.clone();
        crate::ev::par_cases_pristine(ctx, 65_535, move |i, obs| {
            let d = (i + 1) as u16;
            let t = ts[(i as usize) % ts.len()];
            for acc in MS_ACCS {
                check_point(obs, acc, d, t);
            }
            for acc in MIN_ACCS {
                check_point(obs, acc, d, (i % 1440) as u32);
            }
        });
    }

    // Millisecond accessors, enumeration order (d ascending, t ascending) => strictly increasing.
    for acc in MS_ACCS {
        let mut prev = None;
        for d in 1..=65_535u16 {
            for (ti, &t) in ts.iter().enumerate() {
                check_in_range(ctx, acc, d, t, ti as u64, &mut prev);
            }
        }
    }
    // Minute accessors.
    for acc in MIN_ACCS {
        let mut prev = None;
        for d in 1..=65_535u16 {
            let mins: &[u32] = if ctx.tier == crate::ev::Tier::Thorough { &[0, 1, 59, 60, 719, 720, 1380, 1438, 1439] } else { &[0, 719, 1439] };
            for (ti, &t) in mins.iter().enumerate() {
                check_in_range(ctx, acc, d, t, ti as u64, &mut prev);
            }
        }
        let days: Vec<u16> = if ctx.tier == crate::ev::Tier::Thorough {
            (0..400).map(|k| (1 + k * 164) as u16).chain([65_535u16]).collect()
        } else {
            vec![1u16, 366, 19_000, 65_535]
        };
        for d in days {
            let mut prev = None;
            for t in 0..1440u32 {
                check_in_range(ctx, acc, d, t, 100 + t as u64, &mut prev);
            }
        }
    }

    // Cross-crate agreement on every d (decode-crate copy vs data-crate copy of the conversion).
    for d in 1..=65_535u16 {
        let a = mon::catch(|| eval(Acc::MessageHeader, d as u32, r1));
        let b = mon::catch(|| eval(Acc::VolumeHeader, d as u32, r1));
        if let (Ok(Ok(Some((x, _)))), Ok(Ok(Some((y, _))))) = (&a, &b) {
            if x != y {
                ctx.obs.violation(
                    "cross-crate disagreement",
                    format!("d={d} t={r1}: decode crate {x}, data crate {y}"),
                    json!({"date": d, "time": r1}),
                );
            } else {
                ctx.obs.count("cross_crate_agreements", 1);
            }
        }
    }

    // The same header fields as the stream decoder delivers them: a message's date-time is a
    // function of its own header, whatever message came before it in the stream (a header at
    // exactly midnight, t = 0, is as stamped as any other).
    {
        use crate::enc::{self, MsgHeader};
        let sample_days: Vec<u16> = (0..ctx.tier.pick(1_500u32, 20_000u32)).map(|_| rng.range(1, 65_535) as u16).collect();
        let mut check_stream = |ctx: &mut Ctx, d: u16, t: u32| {
            let c1 = *rng.pick(&[2u8, 3, 13, 18]);
            let mut h1 = MsgHeader::realistic(&mut rng, c1);
            h1.date = rng.range(2, 40_000) as u16;
            // (one first message in four carries a time field that is no time of day: its own accessor
            // only has to return, and the message after it is stamped as exactly as ever)
            h1.time = if rng.chance(1, 4) { *rng.pick(&[86_400_000u32, 86_400_001, 1 << 31, u32::MAX]) } else { 1 + rng.below(86_399_999) as u32 };
            let c2 = *rng.pick(&[3u8, 13, 18, 2]);
            let mut h2 = MsgHeader::realistic(&mut rng, c2);
            h2.date = d;
            h2.time = t;
            let body1 = if h1.mtype == 2 { enc::encode_halfwords(&enc::gen_rda_status_in_domain(&mut rng)) } else { vec![0u8; 64] };
            let body2 = if h2.mtype == 2 { enc::encode_halfwords(&enc::gen_rda_status_in_domain(&mut rng)) } else { vec![0u8; 64] };
            let mut stream = enc::frame(&h1, &body1, 0);
            stream.extend_from_slice(&enc::frame(&h2, &body2, 0));
            ctx.obs.case(mix(mix(0x57, d as u64), t as u64));
            let want = cal::icd_epoch_ms(d, t as u64);
            let replay = json!({"accessor": "MessageHeader::date_time of the second message of a stream", "date": d, "time": t, "first_message": {"date": h1.date, "time": h1.time}});
            match mon::catch(|| nexrad_decode::messages::decode_messages(&mut Cursor::new(&stream[..])).map(|v| v.get(1).map(|m| m.header().date_time().map(|x| x.timestamp_millis())))) {
                Ok(Ok(Some(Some(got)))) if got == want => ctx.obs.count("stream_delivered_headers_exact", 1),
                Ok(other) => ctx.obs.violation(
                    "MessageHeader::date_time wrong-instant for a message inside a stream",
                    format!("d={d} t={t} after a message stamped ({}, {}): expected {}, observed {:?}", h1.date, h1.time, want, other.map_err(|e| format!("{e:?}"))),
                    replay,
                ),
                Err(p) => ctx.obs.violation(format!("decode_messages {}", p.signature()), p.message, replay),
            }
        };
        for d in 1..=65_535u16 {
            check_stream(ctx, d, 0);
        }
        // a radial's own date-time is a function of the radial header alone: the message header
        // around it may carry an earlier, equal or later date
        let mut rng2 = Rng::derive(ctx.seed, 8, 0x58);
        for k in 0..ctx.tier.pick(3_000u32, 60_000u32) {
            let d = rng2.range(1, 65_535) as u16;
            let t = *rng2.pick(&[0u32, 1, 43_200_000, 86_399_999]);
            let mut spec = enc::gen_msg31(&mut rng2, 0b0000001111, false, false);
            spec.hdr.date = d;
            spec.hdr.time = t;
            let mut mh = MsgHeader::realistic(&mut rng2, 31);
            mh.date = match k % 3 { 0 => d.saturating_sub(1).max(1), 1 => d, _ => d.saturating_add(1) };
            let bytes = enc::msg31_bytes(&mh, &spec.encode(&mut rng2));
            ctx.obs.case(mix(mix(0x58, d as u64), (t as u64) << 2 | (k % 3) as u64));
            let want = cal::icd_epoch_ms(d, t as u64);
            let got = mon::catch(|| {
                nexrad_decode::messages::decode_messages(&mut Cursor::new(&bytes[..])).map(|v| {
                    v.first().and_then(|m| match m.contents() {
                        nexrad_decode::messages::MessageContents::DigitalRadarData(r) => r.header.date_time().map(|x| x.timestamp_millis()),
                        _ => None,
                    })
                })
            });
            match got {
                Ok(Ok(Some(g))) if g == want => ctx.obs.count("stream_delivered_radial_headers_exact", 1),
                other => ctx.obs.violation(
                    "digital_radar_data::Header::date_time wrong-instant for a radial inside a stream",
                    format!("radial d={d} t={t} in a message dated day {}: expected {}, observed {:?}", mh.date, want, other.map(|r| r.map_err(|e| format!("{e:?}"))).map_err(|p| p.signature())),
                    json!({"date": d, "time": t, "message_date": mh.date}),
                ),
            }
        }
        for &d in &sample_days {
            for &t in &ts {
                check_stream(ctx, d, t);
            }
        }
    }

    // History independence: an accessor is a function of its own (d, t) only.  Out-of-range and
    // in-range calls are interleaved on the same day count and across accessors.
    {
        let n = ctx.tier.pick(200_000u64, 2_000_000u64);
        let all: [Acc; 7] = [Acc::MessageHeader, Acc::RadialHeader, Acc::RadialModel, Acc::VolumeHeader, Acc::BypassMap, Acc::ClutterMapStatus, Acc::ClutterFilterMap];
        for i in 0..n {
            if i % 128 == 1 {
                crate::props::poison::run(i as u64);
            }
            let d = match rng.below(4) {
                0 => *rng.pick(&[1u16, 2, 19_999, 65_535]),
                _ => rng.range(1, 65_535) as u16,
            };
            let a = *rng.pick(&all);
            let b = if rng.chance(1, 2) { a } else { *rng.pick(&all) };
            // first: a call with an out-of-range time on day d (only has to return) ...
            let bad_t = if a.minutes() { rng.range(1440, 65_535) as u32 } else { *rng.pick(&[86_400_000u32, 86_400_001, 172_800_000, u32::MAX, 1 << 31]) };
            check_no_panic(ctx, a, d as u32, bad_t);
            // ... then a legal (d, t) on the same day: must be exact regardless of what came before
            let t = if b.minutes() { rng.below(1440) as u32 } else { rng.below(86_400_000) as u32 };
            let mut prev = None;
            check_in_range(ctx, b, d, t, 5_000 + i, &mut prev);
            ctx.obs.count("history_interleavings_checked", 1);
        }
    }

    // A long stay on one day, then midnight: 66,000 reads of each accessor on day d (what a
    // decoder running all day does), then day d + 1 - each as exact as the first.
    {
        for acc in [Acc::RadialHeader, Acc::MessageHeader, Acc::RadialModel] {
            let d = rng.range(2, 65_000) as u16;
            let mut prev = None;
            for k in 0..66_000u32 {
                // (every read is checked; only every hundredth is counted as a case of its own)
                let t = (k as u64 * 1_309 % 86_400_000) as u32;
                if k % 100 == 0 {
                    check_in_range(ctx, acc, d, t, 9_000 + k as u64, &mut None);
                } else if let Ok(Ok(Some((got, _)))) = mon::catch(|| eval(acc, d as u32, t)) {
                    if got != cal::icd_epoch_ms(d, t as u64) {
                        ctx.obs.violation(format!("{} wrong-instant", acc.name()), format!("d={d} t={t} (read {} of a long stay on one day): expected {}, observed {}", k + 1, cal::icd_epoch_ms(d, t as u64), got), json!({"date": d, "time": t, "read": k + 1}));
                        break;
                    }
                }
            }
            for t in [0u32, 5, 86_399_999] {
                check_in_range(ctx, acc, d + 1, t, 9_900, &mut prev);
            }
            ctx.obs.count("long_stays_on_one_day_followed_by_the_next", 1);
        }
    }

    // No-panic clause.
    let bad_ms = [86_400_000u32, 86_400_001, 1 << 31, u32::MAX, 100_000_000];
    for acc in MS_ACCS {
        for &t in &ts {
            check_no_panic(ctx, acc, 0, t);
        }
        for d in [0u32, 1, 2, 19_000, 65_535] {
            for &t in &bad_ms {
                check_no_panic(ctx, acc, d, t);
            }
        }
    }
    for acc in MIN_ACCS {
        for d in [0u32, 1, 19_000, 65_535] {
            for t in (1440..=65_535u32).step_by(7) {
                check_no_panic(ctx, acc, d, t);
            }
            check_no_panic(ctx, acc, d, 65_535);
        }
        for t in 0..1440u32 {
            check_no_panic(ctx, acc, 0, t);
        }
    }
    // Volume header: the date field is 32 bits wide on the wire.
    for date in [
        65_536u32,
        65_537,
        0x0001_0001,
        0x7FFF_FFFF,
        0x8000_0000,
        u32::MAX,
        u32::MAX - 1,
    ] {
        for t in [0u32, 86_399_999, u32::MAX] {
            check_no_panic(ctx, Acc::VolumeHeader, date, t);
        }
    }
    for _ in 0..20_000 {
        let date = rng.u32();
        let t = rng.u32();
        check_no_panic(ctx, Acc::VolumeHeader, date, t);
        check_no_panic(ctx, Acc::MessageHeader, date & 0xFFFF, t);
        check_no_panic(ctx, Acc::RadialModel, date & 0xFFFF, t);
    }
}
