//! C12 — RDA status message: layout, coded fields, flags and alarm table.
//!
//! "Documented meaning" is the table of DESIGN.md Appendix B, transcribed from the rustdoc on the
//! wire fields of the message struct.

use crate::enc;
use crate::ev::{Ctx, Obs};
use crate::mon;
use crate::rng::{mix, Rng};
use nexrad_decode::messages::rda_status_data::alarm::get_alarm_message;
use nexrad_decode::messages::rda_status_data::{decode_rda_status_message, Message};
use serde_json::json;

fn decode(h: &[u16; 60]) -> Result<Message, String> {
    let b = enc::encode_halfwords(h);
    // every other message goes through a reader that returns short reads
    if h[59] & 1 == 1 {
        let mut rd = mon::DribbleReader::new(std::io::Cursor::new(&b[..]), h[0] as u64);
        return match mon::catch(|| decode_rda_status_message(&mut rd)) {
            Ok(Ok(m)) => Ok(m),
            Ok(Err(e)) => Err(format!("error {e:?} (short-read reader)")),
            Err(p) => Err(p.signature()),
        };
    }
    match mon::catch(|| decode_rda_status_message(&mut &b[..])) {
        Ok(Ok(m)) if h[58] & 3 == 1 => {
            // a reader that fails once, transiently, inside the message: an error is fine, the right
            // message is fine, one put together from other bytes is not
            match super::decode_through_flaky_reader(&b, crate::rng::fnv(&b), |rd| decode_rda_status_message(rd)) {
                Err(p) => Err(format!("panic with a reader that fails transiently: {p}")),
                Ok(Some(m2)) if fields(&m2) != fields(&m) => Err("a transient read error inside the message yields a message decoded from other bytes".to_string()),
                _ => Ok(m),
            }
        }
        // (one result in four is handed on as a clone: a copy holds what the original holds)
        Ok(Ok(m)) => Ok(if h[58] & 3 == 2 { m.clone() } else { m }),
        Ok(Err(e)) => Err(format!("error {e:?}")),
        Err(p) => Err(p.signature()),
    }
}

/// Field i of the decoded message (ICD Table IV halfword position i+1).
fn fields(m: &Message) -> Vec<(&'static str, u16)> {
    let mut v: Vec<(&'static str, u16)> = vec![
        ("rda_status", m.rda_status),
        ("operability_status", m.operability_status),
        ("control_status", m.control_status),
        ("auxiliary_power_generator_state", m.auxiliary_power_generator_state),
        ("average_transmitter_power", m.average_transmitter_power),
        ("horizontal_reflectivity_calibration_correction", m.horizontal_reflectivity_calibration_correction as u16),
        ("data_transmission_enabled", m.data_transmission_enabled),
        ("volume_coverage_pattern", m.volume_coverage_pattern as u16),
        ("rda_control_authorization", m.rda_control_authorization),
        ("rda_build_number", m.rda_build_number as u16),
        ("operational_mode", m.operational_mode),
        ("super_resolution_status", m.super_resolution_status),
        ("clutter_mitigation_decision_status", m.clutter_mitigation_decision_status),
        ("rda_scan_and_data_flags", m.rda_scan_and_data_flags),
        ("rda_alarm_summary", m.rda_alarm_summary),
        ("command_acknowledgement", m.command_acknowledgement),
        ("channel_control_status", m.channel_control_status),
        ("spot_blanking_status", m.spot_blanking_status),
        ("bypass_map_generation_date", m.bypass_map_generation_date),
        ("bypass_map_generation_time", m.bypass_map_generation_time),
        ("clutter_filter_map_generation_date", m.clutter_filter_map_generation_date),
        ("clutter_filter_map_generation_time", m.clutter_filter_map_generation_time),
        ("vertical_reflectivity_calibration_correction", m.vertical_reflectivity_calibration_correction as u16),
        ("transition_power_source_status", m.transition_power_source_status),
        ("rms_control_status", m.rms_control_status),
        ("performance_check_status", m.performance_check_status),
    ];
    for a in m.alarm_codes.iter() {
        v.push(("alarm_codes[]", *a));
    }
    v.push(("signal_processor_options", m.signal_processor_options));
    for s in m.spares.iter() {
        v.push(("spares[]", *s));
    }
    v.push(("status_version", m.status_version));
    v
}

fn coded(
    obs: &mut Obs,
    accessor: &str,
    table: &[(u16, &str)],
    base: &Message,
    set: impl Fn(&mut Message, u16),
    get: impl Fn(&Message) -> String,
) {
    let mut seen: Vec<(String, u16)> = Vec::new();
    for (code, meaning) in table {
        obs.case(mix(crate::rng::fnv_str(accessor), *code as u64));
        let mut m = base.clone();
        set(&mut m, *code);
        let replay = json!({"accessor": accessor, "code": code, "documented_meaning": meaning});
        match mon::catch(|| get(&m)) {
            Err(p) => obs.violation(
                format!("{}() on documented code {}: {}", accessor, code, p.signature()),
                p.message,
                replay,
            ),
            Ok(got) => {
                if &got != meaning {
                    obs.violation(
                        format!("{}() wrong meaning for documented code {}", accessor, code),
                        format!("documented {}, observed {}", meaning, got),
                        replay,
                    );
                } else if let Some((_, other)) = seen.iter().find(|(g, _)| *g == got) {
                    obs.violation(
                        format!("{}() gives one meaning to two codes", accessor),
                        format!("codes {} and {} -> {}", other, code, got),
                        replay,
                    );
                } else {
                    obs.count("documented_codes_with_documented_meaning", 1);
                }
                seen.push((got, *code));
            }
        }
    }
}

/// Flag word: every accessor must equal exactly one bit for all 2^16 words. `readings` lists the
/// admissible bit assignments (one per admissible reading of the documentation).
fn flags(
    obs: &mut Obs,
    word: &str,
    accessors: &[&str],
    readings: &[&[u32]],
    base: &Message,
    set: impl Fn(&mut Message, u16),
    get: impl Fn(&Message) -> Vec<bool>,
) {
    let mut alive: Vec<bool> = vec![true; readings.len()];
    let mut first_fail: Vec<Option<(u16, usize, bool)>> = vec![None; readings.len()];
    for w in 0..=65_535u16 {
        obs.case(mix(crate::rng::fnv_str(word), w as u64));
        let mut m = base.clone();
        set(&mut m, w);
        match mon::catch(|| get(&m)) {
            Err(p) => {
                obs.violation(
                    format!("{} flag accessor {}", word, p.signature()),
                    format!("word {:#06x}: {}", w, p.message),
                    json!({"word": word, "value": w}),
                );
                // a panic refutes every reading for this word value
                for (ri, a) in alive.iter_mut().enumerate() {
                    if *a {
                        *a = false;
                        first_fail[ri] = Some((w, 0, false));
                    }
                }
            }
            Ok(vals) => {
                for (ri, bits) in readings.iter().enumerate() {
                    if !alive[ri] {
                        continue;
                    }
                    for (ai, bit) in bits.iter().enumerate() {
                        let want = (w >> bit) & 1 == 1;
                        if vals[ai] != want {
                            alive[ri] = false;
                            first_fail[ri] = Some((w, ai, vals[ai]));
                            break;
                        }
                    }
                }
            }
        }
    }
    if alive.iter().any(|a| *a) {
        obs.count("flag_words_reading_exactly_documented_bits", 1);
        obs.count("flag_accessor_evaluations", 65_536 * accessors.len() as u64);
    } else {
        // report against the primary (first) reading
        let (w, ai, got) = first_fail[0].unwrap_or((0, 0, false));
        obs.violation(
            format!("{}: {}() does not read exactly its documented bit", word, accessors.get(ai).copied().unwrap_or("?")),
            format!(
                "word {:#06x}: documented bit {} => {}, observed {} (no admissible reading of the documentation fits all 65,536 values)",
                w,
                readings[0].get(ai).copied().unwrap_or(0),
                (w >> readings[0].get(ai).copied().unwrap_or(0)) & 1 == 1,
                got
            ),
            json!({"word": word, "value": w, "accessor": accessors.get(ai)}),
        );
    }
}

pub fn run(ctx: &mut Ctx) {
    ctx.rule = "layout: 60 distinct halfwords decoded, field i must be halfword i of ICD Table IV; coded accessors: one case per documented code (meaning by variant name, distinct codes => distinct meanings); flag words: one case per word value, all 65,536, every accessor equal to its documented bit; scaled values, VCP sign/magnitude and alarm lookup: one case per raw value, all 65,536; alarm_messages on random 14-code arrays; \
oracle = DESIGN.md Appendix B (transcribed from the rustdoc on the wire fields)"
        .into();
    ctx.exhaustive = Some("2^16 values per flag word (3 words), per scaled field (2), for the VCP number and for the alarm lookup; every documented code of 15 coded fields".into());
    ctx.assumptions = vec![
        "documented meaning = rustdoc on the wire fields (the ICD text is not available offline)".into(),
        "where a doc line is self-inconsistent (\"1 (bit 1)\") both readings are admissible, one per flag word".into(),
        "calibration raw may be read as u16 or i16 (the statement does not say); VCP raw -32768 excluded (magnitude not representable)".into(),
    ];
    ctx.floor_evaluations = 300_000;
    let seed = ctx.seed;
    // First of all, before the process has looked any alarm up: the codes 0..=1023 in ascending
    // order, each handed to four worker threads at once (a definition table that is built or
    // extended on first sight of a code is built under contention).
    crate::ev::par_cases_pristine(ctx, 1024 * 4, |i, obs| {
        let code = (i / 4) as u16;
        obs.case(mix(1230, i));
        match mon::catch(|| get_alarm_message(code).map(|d| d.code())) {
            Ok(Some(c)) if code <= 800 && c == code => obs.count("alarm_definitions_carry_their_code_on_first_sight", 1),
            Ok(None) if code > 800 => obs.count("alarm_codes_above_800_undefined", 1),
            Ok(other) => obs.violation(
                if code > 800 { "alarm lookup defines a code above 800" } else if other.is_none() { "alarm lookup has no definition for a code in 0..=800" } else { "alarm definition carries another code" },
                format!("lookup({}) -> {:?} (codes in ascending order on all worker threads at once)", code, other),
                json!({"code": code, "phase": "first sight"}),
            ),
            Err(p) => obs.violation(format!("get_alarm_message {}", p.signature()), p.message, json!({"code": code})),
        }
    });
    let mut rng = Rng::derive(seed, 12, 0);

    // ---- layout --------------------------------------------------------------------------------------
    let n_layout = ctx.tier.pick(100_000, 3_000_000);
    for i in 0..n_layout {
        if i % 128 == 1 {
            crate::props::poison::run(i as u64);
        }
        let mut h = [0u16; 60];
        let mut used = std::collections::HashSet::new();
        for v in h.iter_mut() {
            loop {
                let x = rng.u16();
                if (x >> 8) != (x & 0xFF) && used.insert(x) {
                    *v = x;
                    break;
                }
            }
        }
        ctx.obs.case(mix(120, i));
        let replay = json!({"halfwords": h.to_vec()});
        match decode(&h) {
            Err(e) => ctx.obs.violation(format!("60-halfword message refused: {}", e), "", replay),
            Ok(m) => {
                let f = fields(&m);
                if f.len() != 60 {
                    ctx.obs.violation("harness field table is not 60 long", format!("{}", f.len()), replay);
                    continue;
                }
                let mut ok = true;
                for (pos, (name, got)) in f.iter().enumerate() {
                    if *got != h[pos] {
                        ok = false;
                        ctx.obs.violation(
                            format!("layout: halfword {} is not {}", pos + 1, name),
                            format!("wrote {:#06x} at halfword {}, field {} holds {:#06x}", h[pos], pos + 1, name, got),
                            replay.clone(),
                        );
                        break;
                    }
                }
                if ok {
                    ctx.obs.count("messages_with_all_60_fields_in_place", 1);
                }
                if ctx.obs.want_sample() && i < 2 {
                    ctx.obs.sample(json!({"kind": "layout", "halfwords_1_to_8": h[..8].to_vec(), "decoded": f[..8].iter().map(|(n, v)| json!({n.to_string(): v})).collect::<Vec<_>>()}));
                }
            }
        }
    }

    let base = match decode(&enc::gen_rda_status_in_domain(&mut rng)) {
        Ok(m) => m,
        Err(e) => {
            ctx.obs.inconclusive(format!("cannot decode a base status message: {}", e));
            return;
        }
    };
    let obs = &mut ctx.obs;

    // ---- coded accessors on their documented codes ---------------------------------------------------------
    coded(obs, "rda_status", &[(2, "StartUp"), (4, "Standby"), (8, "Restart"), (16, "Operate")], &base,
        |m, c| m.rda_status = c, |m| format!("{:?}", m.rda_status()));
    coded(obs, "operability_status", &[(2, "OnLine"), (4, "MaintenanceActionRequired"), (8, "MaintenanceActionMandatory"), (16, "CommandedShutDown"), (32, "Inoperable")], &base,
        |m, c| m.operability_status = c, |m| format!("{:?}", m.operability_status()));
    coded(obs, "control_status", &[(2, "LocalControlOnly"), (4, "RemoteControlOnly"), (8, "EitherLocalOrRemoteControl")], &base,
        |m, c| m.control_status = c, |m| format!("{:?}", m.control_status()));
    coded(obs, "auxiliary_power_generator_state", &[(1, "SwitchedToAuxiliaryPower"), (2, "UtilityPowerAvailable"), (4, "GeneratorOn"), (8, "TransferSwitchSetToManual"), (16, "CommandedSwitchover")], &base,
        |m, c| m.auxiliary_power_generator_state = c, |m| format!("{:?}", m.auxiliary_power_generator_state()));
    coded(obs, "rda_control_authorization", &[(0, "NoAction"), (2, "LocalControlRequested"), (4, "RemoteControlRequested")], &base,
        |m, c| m.rda_control_authorization = c, |m| format!("{:?}", m.rda_control_authorization()));
    coded(obs, "operational_mode", &[(4, "Operational"), (8, "Maintenance")], &base,
        |m, c| m.operational_mode = c, |m| format!("{:?}", m.operational_mode()));
    coded(obs, "super_resolution_status", &[(2, "Enabled"), (4, "Disabled")], &base,
        |m, c| m.super_resolution_status = c, |m| format!("{:?}", m.super_resolution_status()));
    coded(obs, "clutter_mitigation_decision_status",
        &[(0, "Disabled"), (1, "Enabled"), (2, "BypassMapElevationSegments([1])"), (4, "BypassMapElevationSegments([2])"), (8, "BypassMapElevationSegments([3])"), (16, "BypassMapElevationSegments([4])"), (32, "BypassMapElevationSegments([5])")], &base,
        |m, c| m.clutter_mitigation_decision_status = c, |m| format!("{:?}", m.clutter_mitigation_decision_status()));
    coded(obs, "command_acknowledgement",
        &[(0, "None"), (1, "Some(RemoteVCPReceived)"), (2, "Some(ClutterBypassMapReceived)"), (3, "Some(ClutterCensorZonesReceived)"), (4, "Some(RedundantChannelControlCommandAccepted)")], &base,
        |m, c| m.command_acknowledgement = c, |m| format!("{:?}", m.command_acknowledgement()));
    coded(obs, "controlling_channel", &[(0, "true"), (1, "false")], &base,
        |m, c| m.channel_control_status = c, |m| format!("{:?}", m.controlling_channel()));
    coded(obs, "spot_blanking_status", &[(0, "NotInstalled"), (1, "Enabled"), (4, "Disabled")], &base,
        |m, c| m.spot_blanking_status = c, |m| format!("{:?}", m.spot_blanking_status()));
    coded(obs, "transition_power_source_status", &[(0, "NotInstalled"), (1, "Off"), (3, "OK"), (4, "Unknown")], &base,
        |m, c| m.transition_power_source_status = c, |m| format!("{:?}", m.transition_power_source_status()));
    coded(obs, "rms_control_status", &[(0, "NonRMS"), (2, "RMSInControl"), (4, "RDAInControl")], &base,
        |m, c| m.rms_control_status = c, |m| format!("{:?}", m.rms_control_status()));
    coded(obs, "performance_check_status", &[(0, "NoCommandPending"), (1, "ForcePerformanceCheckPending"), (2, "InProgress")], &base,
        |m, c| m.performance_check_status = c, |m| format!("{:?}", m.performance_check_status()));

    // ---- flag words, all 2^16 values ---------------------------------------------------------------------
    flags(obs, "rda_scan_and_data_flags",
        &["avset_enabled", "ebc_enabled", "rda_log_data_enabled", "time_series_data_recording_enabled"],
        &[&[1, 3, 4, 5]], &base,
        |m, w| m.rda_scan_and_data_flags = w,
        |m| { let f = m.rda_scan_and_data_flags(); vec![f.avset_enabled(), f.ebc_enabled(), f.rda_log_data_enabled(), f.time_series_data_recording_enabled()] });
    flags(obs, "data_transmission_enabled",
        &["none", "reflectivity", "velocity", "spectrum_width"],
        &[&[0, 1, 2, 3], &[1, 2, 3, 4]], &base,
        |m, w| m.data_transmission_enabled = w,
        |m| { let f = m.data_transmission_enabled(); vec![f.none(), f.reflectivity(), f.velocity(), f.spectrum_width()] });
    flags(obs, "rda_alarm_summary",
        &["tower_utilities", "pedestal", "transmitter", "receiver", "rda_control", "communication", "signal_processor"],
        &[&[0, 1, 2, 3, 4, 5, 6], &[1, 2, 3, 4, 5, 6, 7]], &base,
        |m, w| m.rda_alarm_summary = w,
        |m| { let f = m.rda_alarm_summary(); vec![f.tower_utilities(), f.pedestal(), f.transmitter(), f.receiver(), f.rda_control(), f.communication(), f.signal_processor()] });
    // "no alarms" is documented as the value 0
    {
        let mut m = base.clone();
        m.rda_alarm_summary = 0;
        obs.case(mix(121, 0));
        match mon::catch(|| m.rda_alarm_summary().none()) {
            Ok(true) => obs.count("alarm_summary_none_on_zero", 1),
            Ok(false) => obs.violation("rda_alarm_summary none() false on 0", "", json!({"value": 0})),
            Err(p) => obs.violation(format!("rda_alarm_summary none() {}", p.signature()), p.message, json!({})),
        }
        for bit in 0..7 {
            m.rda_alarm_summary = 1 << bit;
            obs.case(mix(121, 1 + bit));
            if let Ok(true) = mon::catch(|| m.rda_alarm_summary().none()) {
                obs.violation("rda_alarm_summary none() true with an alarm bit set", format!("bit {}", bit), json!({"value": 1 << bit}));
            }
        }
    }

    // ---- scaled values, all 2^16 raws ------------------------------------------------------------------
    for raw in 0..=65_535u16 {
        obs.case(mix(122, raw as u64));
        let mut m = base.clone();
        m.horizontal_reflectivity_calibration_correction = raw as _;
        m.rda_build_number = raw as _;
        m.volume_coverage_pattern = raw as i16;
        // calibration: raw/100 with raw read as u16 or as i16
        match mon::catch(|| m.horizontal_reflectivity_calibration_correction()) {
            Ok(v) => {
                let a = raw as f32 / 100.0;
                let b = (raw as i16) as f32 / 100.0;
                if v.to_bits() != a.to_bits() && v.to_bits() != b.to_bits() {
                    obs.violation("horizontal_reflectivity_calibration_correction() is not raw/100",
                        format!("raw {}: expected {} (or {} signed), observed {}", raw, a, b, v), json!({"raw": raw}));
                } else {
                    obs.count("scaled_values_exact", 1);
                }
            }
            Err(p) => obs.violation(format!("horizontal_reflectivity_calibration_correction() {}", p.signature()), p.message, json!({"raw": raw})),
        }
        match mon::catch(|| m.rda_build_number()) {
            Ok(v) => {
                let n = raw as f32;
                let want = if n / 100.0 > 2.0 { n / 100.0 } else { n / 10.0 };
                if v.to_bits() != want.to_bits() {
                    obs.violation("rda_build_number() breaks the build-number rule",
                        format!("raw {}: expected {}, observed {}", raw, want, v), json!({"raw": raw}));
                } else {
                    obs.count("scaled_values_exact", 1);
                }
            }
            Err(p) => obs.violation(format!("rda_build_number() {}", p.signature()), p.message, json!({"raw": raw})),
        }
        let s = raw as i16;
        if s != i16::MIN {
            match mon::catch(|| m.volume_coverage_pattern().map(|v| (v.number(), v.local(), v.remote()))) {
                Ok(got) => {
                    let want = if s == 0 { None } else { Some((s.abs(), s < 0, s > 0)) };
                    if got != want {
                        obs.violation("volume_coverage_pattern() magnitude/sign wrong",
                            format!("raw {}: expected {:?}, observed {:?}", s, want, got), json!({"raw": s}));
                    } else {
                        obs.count("vcp_numbers_exact", 1);
                    }
                }
                Err(p) => obs.violation(format!("volume_coverage_pattern() {}", p.signature()), p.message, json!({"raw": s})),
            }
        }
    }

    // ---- alarm lookup, all 2^16 codes --------------------------------------------------------------------
    for code in 0..=65_535u16 {
        obs.case(mix(123, code as u64));
        match mon::catch(|| get_alarm_message(code)) {
            Ok(Some(def)) => {
                if code > 800 {
                    obs.violation("alarm lookup defines a code above 800", format!("code {}", code), json!({"code": code}));
                } else if def.code() != code {
                    obs.violation("alarm definition carries another code",
                        format!("lookup({}) -> definition with code {} ({})", code, def.code(), def.message()), json!({"code": code}));
                } else {
                    obs.count("alarm_definitions_carry_their_code", 1);
                }
            }
            Ok(None) => {
                if code <= 800 {
                    obs.violation("alarm lookup has no definition for a code in 0..=800", format!("code {}", code), json!({"code": code}));
                } else {
                    obs.count("alarm_codes_above_800_undefined", 1);
                }
            }
            Err(p) => obs.violation(format!("get_alarm_message {}", p.signature()), p.message, json!({"code": code})),
        }
    }

    // ---- the summary of a status message mirrors its accessors (summarize/rda.rs) ------------------------------
    {
        use nexrad_decode::messages::decode_messages;
        let n = ctx.tier.pick(20_000, 150_000);
        for i in 0..n {
        if i % 128 == 1 {
            crate::props::poison::run(i as u64);
        }
            if i % 128 == 1 {
                crate::props::poison::run(i as u64);
            }
            let mut h = enc::gen_rda_status_in_domain(&mut rng);
            if i % 3 == 0 {
                h[14] = 0; // no alarm summary bits, whatever the alarm-code slots hold
            }
            if i % 5 == 0 {
                for a in h[26..40].iter_mut() {
                    *a = 0;
                }
            }
            let mh = enc::MsgHeader::realistic(&mut rng, 2);
            let frame = enc::frame(&mh, &enc::encode_halfwords(&h), 0);
            ctx.obs.case(mix(125, i));
            let replay = json!({"halfwords": h.to_vec()});
            let msgs = match mon::catch(|| decode_messages(&mut std::io::Cursor::new(&frame[..]))) {
                Ok(Ok(m)) if m.len() == 1 => m,
                _ => {
                    ctx.obs.violation("type-2 frame does not decode to one message", "", replay);
                    continue;
                }
            };
            let info = match mon::catch(|| nexrad_decode::summarize::messages(&msgs)) {
                Ok(s) => s.message_groups.first().and_then(|g| g.rda_status_info.clone()),
                Err(p) => {
                    ctx.obs.violation(format!("summarize {}", p.signature()), p.message, replay);
                    continue;
                }
            };
            let Some(info) = info else {
                ctx.obs.violation("summary has no status info for a status message", "", replay);
                continue;
            };
            let vcp = h[7] as i16;
            let summary_bits = h[14] & 0x7F;
            let alarm_names = ["Tower/utilities", "Pedestal", "Transmitter", "Receiver", "RDA control", "Communication", "Signal processor"];
            let want_alarms: Vec<String> = (0..7).filter(|b| summary_bits >> b & 1 == 1).map(|b| alarm_names[b].to_string()).collect();
            let mut want_data: Vec<String> = Vec::new();
            if h[6] & 1 != 0 {
                want_data.push("None".into());
            } else {
                if h[6] & 2 != 0 {
                    want_data.push("Reflectivity".into());
                }
                if h[6] & 4 != 0 {
                    want_data.push("Velocity".into());
                }
                if h[6] & 8 != 0 {
                    want_data.push("Spectrum Width".into());
                }
            }
            let checks: [(&str, bool); 9] = [
                ("has_alarms", info.has_alarms == (h[14] != 0)),
                ("active_alarms", info.active_alarms == want_alarms),
                ("average_transmitter_power", info.average_transmitter_power == h[4]),
                ("vcp_number", info.vcp_number == if vcp == 0 { None } else { Some(vcp.abs()) }),
                ("vcp_is_local", info.vcp_is_local == (vcp < 0)),
                ("reflectivity_calibration", info.reflectivity_calibration.to_bits() == (h[5] as f32 / 100.0).to_bits() || info.reflectivity_calibration.to_bits() == ((h[5] as i16) as f32 / 100.0).to_bits()),
                ("data_transmission_enabled", info.data_transmission_enabled == want_data),
                ("operability_status", info.operability_status == match h[1] { 2 => "OnLine", 4 => "MaintenanceActionRequired", 8 => "MaintenanceActionMandatory", 16 => "CommandedShutDown", _ => "Inoperable" }),
                ("control_status", info.control_status == match h[2] { 2 => "LocalControlOnly", 4 => "RemoteControlOnly", _ => "EitherLocalOrRemoteControl" }),
            ];
            let mut ok = true;
            for (name, good) in checks {
                if !good {
                    ok = false;
                    ctx.obs.violation(
                        format!("status summary field {} does not mirror the message", name),
                        format!("alarm summary word {:#06x}, alarm codes {:?}: {:?}", h[14], &h[26..40], info),
                        replay.clone(),
                    );
                    break;
                }
            }
            if ok {
                ctx.obs.count("status_summaries_mirror_the_message", 1);
            }
        }
    }

    // ---- alarm_messages(): non-zero codes, message order ----------------------------------------------------
    let n = ctx.tier.pick(150_000, 5_000_000);
    let mut previous_codes = base.alarm_codes;
    for i in 0..n {
        if i % 128 == 1 {
            crate::props::poison::run(i as u64);
        }
        let mut m = base.clone();
        if i % 3 == 2 {
            // the previous message's codes in another slot order (rotated, reversed, shuffled): the
            // list follows *this* message's slots, whatever was asked before
            m.alarm_codes = previous_codes;
            match rng.below(3) {
                0 => m.alarm_codes.rotate_left(1 + rng.usize_below(13)),
                1 => m.alarm_codes.reverse(),
                _ => rng.shuffle(&mut m.alarm_codes),
            }
            ctx.obs.count("alarm_lists_with_the_previous_codes_in_another_order", 1);
        } else {
            for a in m.alarm_codes.iter_mut() {
                *a = match rng.below(6) {
                    0 | 1 => 0,
                    2 => rng.range(801, 65_535) as u16,
                    3 => *rng.pick(&[1u16, 2, 3, 13, 14, 800, 799, 703]),
                    _ => rng.range(1, 800) as u16,
                };
            }
        }
        if i % 7 == 0 {
            let c = m.alarm_codes[0];
            m.alarm_codes[5] = c; // duplicates
        }
        if i % 5 == 1 {
            // the same code in neighbouring slots, or separated only by empty / undefined slots
            let k = rng.usize_below(12);
            let c = rng.range(1, 800) as u16;
            m.alarm_codes[k] = c;
            m.alarm_codes[k + 1] = *rng.pick(&[c, 0, 900]);
            m.alarm_codes[k + 2] = c;
        }
        previous_codes = m.alarm_codes;
        ctx.obs.case(mix(124, i));
        let want: Vec<u16> = m.alarm_codes.iter().copied().filter(|c| *c != 0 && *c <= 800).collect();
        match mon::catch(|| m.alarm_messages().iter().map(|d| d.code()).collect::<Vec<u16>>()) {
            Ok(got) if got == want => ctx.obs.count("alarm_message_lists_in_message_order", 1),
            Ok(got) => ctx.obs.violation("alarm_messages() is not the definitions of the non-zero codes in order",
                format!("codes {:?}: expected {:?}, observed {:?}", m.alarm_codes, want, got), json!({"alarm_codes": m.alarm_codes.to_vec()})),
            Err(p) => ctx.obs.violation(format!("alarm_messages() {}", p.signature()), p.message, json!({"alarm_codes": m.alarm_codes.to_vec()})),
        }
        if ctx.obs.samples.len() < 4 && i == 3 {
            ctx.obs.sample(json!({"kind": "alarm_messages", "alarm_codes": m.alarm_codes.to_vec(), "expected_definition_codes": want}));
        }
    }
}
