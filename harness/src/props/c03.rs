//! C03 — Message streams are framed correctly: N messages in, N messages out.

use super::cmp31;
use crate::enc::{self, gen_msg31, gen_vcp, MsgHeader, Msg31};
use crate::ev::{par_cases, Ctx, Obs};
use crate::mon;
use crate::rng::{mix, Rng};
use nexrad_decode::messages::{decode_messages, Message, MessageContents};
use serde_json::json;
use std::io::Cursor;

#[derive(Clone)]
pub enum Item {
    Fixed { hdr: MsgHeader, bytes: Vec<u8> },
    Radial { hdr: MsgHeader, spec: Msg31, bytes: Vec<u8> },
}

impl Item {
    pub fn bytes(&self) -> &[u8] {
        match self {
            Item::Fixed { bytes, .. } | Item::Radial { bytes, .. } => bytes,
        }
    }
    pub fn hdr(&self) -> &MsgHeader {
        match self {
            Item::Fixed { hdr, .. } | Item::Radial { hdr, .. } => hdr,
        }
    }
    pub fn kind_char(&self) -> String {
        match self {
            Item::Fixed { hdr, .. } => format!("{}", hdr.mtype),
            Item::Radial { spec, .. } => format!("31[{}]", spec.blocks.len()),
        }
    }
}

/// A well-formed frame of the given type code (any code but 31).
pub fn gen_fixed(rng: &mut Rng, code: u8) -> Item {
    let mut hdr = MsgHeader::realistic(rng, code);
    hdr.mtype = code;
    // a fixed frame occupies 2432 bytes whatever its header says about sizes and segments
    match rng.below(6) {
        0 => hdr.size = 0,
        1 => hdr.size = rng.range(0, 0xFFFE) as u16,
        2 => {
            hdr.seg_count = rng.u16();
            hdr.seg_num = rng.u16();
        }
        _ => {}
    }
    if code == 0 && rng.chance(1, 2) {
        // the all-zero frame (padding as some archives carry it): type 0, size 0, no date
        let bytes = vec![0u8; enc::FRAME];
        let hdr = MsgHeader { rpg: [0; 12], size: 0, channel: 0, mtype: 0, seq: 0, date: 0, time: 0, seg_count: 0, seg_num: 0 };
        return Item::Fixed { hdr, bytes };
    }
    let body: Vec<u8> = match code {
        2 => enc::encode_halfwords(&enc::gen_rda_status_in_domain(rng)),
        5 => {
            let n = *rng.pick(&[0usize, 1, 2, 5, 14, 25, 51]);
            gen_vcp(rng, n).encode()
        }
        _ => rng.bytes(enc::FRAME_BODY),
    };
    let pad = rng.u8();
    let bytes = enc::frame(&hdr, &body, pad);
    Item::Fixed { hdr, bytes }
}

pub fn gen_radial(rng: &mut Rng) -> Item {
    let hdr = MsgHeader::realistic(rng, 31);
    let subset = match rng.below(4) {
        0 => 0b0000001111,
        1 => 0b1111111111,
        _ => rng.below(1024) as u16,
    };
    let mut spec = gen_msg31(rng, subset, false, false);
    // keep streams small: cap gate counts
    for b in spec.blocks.iter_mut() {
        if let enc::Block::Mom(m) = b {
            if m.gates > 200 {
                m.gates = (m.gates % 200) + 1;
                m.data.truncate(m.gates as usize * (m.word as usize / 8));
            }
        }
    }
    if rng.chance(1, 4) {
        spec.loosen_frameable(rng);
    }
    let body = spec.encode(rng);
    let bytes = enc::msg31_bytes(&hdr, &body);
    Item::Radial { hdr, spec, bytes }
}

/// A radial laid out byte for byte like `item` (same pointer table, same block sizes) whose last
/// moment block carries another moment's name: equal offsets do not mean equal contents.
pub fn twin_radial(item: &Item, rng: &mut Rng) -> Option<Item> {
    let Item::Radial { hdr, spec, .. } = item else { return None };
    let mut spec = spec.clone();
    let present: Vec<[u8; 3]> = spec.blocks.iter().filter_map(|b| if let enc::Block::Mom(m) = b { Some(m.name) } else { None }).collect();
    let unused: Vec<[u8; 3]> = enc::MOMENT_NAMES.iter().map(|n| **n).filter(|n| !present.contains(n)).collect();
    if present.is_empty() || unused.is_empty() {
        return None;
    }
    let new_name = unused[rng.usize_below(unused.len())];
    for b in spec.blocks.iter_mut().rev() {
        if let enc::Block::Mom(m) = b {
            m.name = new_name;
            break;
        }
    }
    let mut hdr = hdr.clone();
    hdr.seq = hdr.seq.wrapping_add(1);
    let body = spec.encode(rng);
    let bytes = enc::msg31_bytes(&hdr, &body);
    Some(Item::Radial { hdr, spec, bytes })
}

fn header_matches(m: &Message, h: &MsgHeader) -> Option<String> {
    let d = m.header();
    let pairs: [(&str, u64, u64); 8] = [
        ("segment_size", d.segment_size as u64, h.size as u64),
        ("redundant_channel", d.redundant_channel as u64, h.channel as u64),
        ("message_type", d.message_type as u64, h.mtype as u64),
        ("sequence_number", d.sequence_number as u64, h.seq as u64),
        ("date", d.date as u64, h.date as u64),
        ("time", d.time as u64, h.time as u64),
        ("segment_count", d.segment_count as u64, h.seg_count as u64),
        ("segment_number", d.segment_number as u64, h.seg_num as u64),
    ];
    for (n, g, w) in pairs {
        if g != w {
            return Some(format!("header.{}: wrote {}, decoded {}", n, w, g));
        }
    }
    None
}

fn kinds(items: &[Item]) -> String {
    items.iter().map(|i| i.kind_char()).collect::<Vec<_>>().join(",")
}

/// Full-stream check: count, per-entry equality with solo decode, headers, placeholders, position.
pub fn check_stream(obs: &mut Obs, items: &[Item], via_record: bool, shape: u64) {
    obs.case(shape);
    let mut stream = Vec::new();
    for it in items {
        stream.extend_from_slice(it.bytes());
    }
    let replay = json!({"kinds": kinds(items), "stream_len": stream.len(), "via_record": via_record,
        "stream_hex": crate::ev::hex(&stream[..stream.len().min(6000)])});
    let mut pos_after = 0u64;
    // (without nexrad-data - the reduced-feature lane - every stream goes through decode_messages)
    #[cfg(not(feature = "data"))]
    let via_record = { let _ = via_record; false };
    let decoded = if via_record {
        #[cfg(feature = "data")]
        {
            let rec = nexrad_data::volume::Record::new(stream.clone());
            match mon::catch(|| rec.messages()) {
                Err(p) => Err((format!("Record::messages {}", p.signature()), p.message)),
                Ok(Err(e)) => Err(("Record::messages error on well-formed stream".to_string(), format!("{e:?}"))),
                Ok(Ok(v)) => {
                    pos_after = stream.len() as u64;
                    Ok(v)
                }
            }
        }
        #[cfg(not(feature = "data"))]
        {
            unreachable!()
        }
    } else {
        let dribble = shape % 3 == 0;
        let mut cur = mon::DribbleReader::new(Cursor::new(&stream[..]), if dribble { shape } else { 0 });
        let mut plain = Cursor::new(&stream[..]);
        let r = if dribble {
            obs.count("streams_through_short_read_reader", 1);
            mon::catch(|| decode_messages(&mut cur))
        } else {
            mon::catch(|| decode_messages(&mut plain))
        };
        match r {
            Err(p) => Err((format!("decode_messages {}", p.signature()), p.message)),
            Ok(Err(e)) => Err(("decode_messages error on well-formed stream".to_string(), format!("{e:?}"))),
            Ok(Ok(v)) => {
                use std::io::Seek;
                pos_after = if dribble { cur.stream_position().unwrap_or(0) } else { plain.position() };
                Ok(v)
            }
        }
    };
    let msgs = match decoded {
        Ok(m) => m,
        Err((sig, detail)) => {
            obs.violation(sig, format!("{} | kinds {}", detail, kinds(items)), replay);
            return;
        }
    };
    if msgs.len() != items.len() {
        obs.violation(
            "message count differs",
            format!("{} messages in, {} out | kinds {}", items.len(), msgs.len(), kinds(items)),
            replay,
        );
        return;
    }
    if pos_after != stream.len() as u64 {
        obs.violation(
            "stream position after the last message is not the stream length",
            format!("position {} of {}", pos_after, stream.len()),
            replay,
        );
        return;
    }
    for (i, (m, it)) in msgs.iter().zip(items.iter()).enumerate() {
        if let Some(d) = header_matches(m, it.hdr()) {
            obs.violation("entry header differs", format!("entry {}: {}", i, d), replay.clone());
            return;
        }
        // decoded alone
        let solo = mon::catch(|| decode_messages(&mut Cursor::new(it.bytes())));
        match solo {
            Ok(Ok(v)) if v.len() == 1 => {
                // equal by the library's own `==`, and (for the fixed frames, whose contents are not
                // compared field by field below) equal in their Debug rendering too - a second opinion
                // that does not go through PartialEq; a rendering that panics on undocumented codes
                // is not this property's concern and is skipped
                let differs_in_rendering = !matches!(it, Item::Radial { .. })
                    && matches!(
                        (mon::catch(|| format!("{:?}", v[0].contents())), mon::catch(|| format!("{:?}", m.contents()))),
                        (Ok(a), Ok(b)) if a != b
                    );
                if v[0] != *m || differs_in_rendering {
                    obs.violation(
                        "entry differs from the same message decoded alone",
                        format!("entry {} of kinds {}", i, kinds(items)),
                        replay.clone(),
                    );
                    return;
                }
            }
            _ => {
                obs.violation(
                    "single well-formed message does not decode to one entry",
                    format!("entry {} kind {}", i, it.kind_char()),
                    replay.clone(),
                );
                return;
            }
        }
        match (it, m.contents()) {
            (Item::Radial { spec, .. }, MessageContents::DigitalRadarData(r)) => {
                let diffs = cmp31::compare(spec, r);
                if let Some(d) = diffs.first() {
                    obs.violation(
                        format!("type-31 entry field {}", d.field),
                        format!("entry {}: {}", i, d.detail),
                        replay.clone(),
                    );
                    return;
                }
            }
            (Item::Fixed { hdr, .. }, c) => {
                let ok = match (hdr.mtype, c) {
                    (2, MessageContents::RDAStatusData(_)) => true,
                    (5, MessageContents::VolumeCoveragePattern(_)) => true,
                    (2, _) | (5, _) => false,
                    (_, MessageContents::Other) => true,
                    _ => false,
                };
                if !ok {
                    obs.violation(
                        "fixed frame surfaced with the wrong contents kind",
                        format!("entry {} type code {}", i, hdr.mtype),
                        replay.clone(),
                    );
                    return;
                }
            }
            _ => {
                obs.violation(
                    "type-31 message surfaced with the wrong contents kind",
                    format!("entry {}", i),
                    replay.clone(),
                );
                return;
            }
        }
    }
    obs.count("streams_framed_correctly", 1);
    obs.count("messages_checked", items.len() as u64);
    if via_record {
        obs.count("streams_through_Record_messages", 1);
    }
}

/// Truncation check at `cut` bytes.
pub fn check_cut(obs: &mut Obs, items: &[Item], stream: &[u8], bounds: &[usize], cut: usize) {
    // bounds[i] = offset where message i starts; bounds[n] = stream length
    let i = match bounds.binary_search(&cut) {
        Ok(i) => i,
        Err(i) => i - 1,
    };
    let k = cut - bounds[i];
    let within_header_fragment = k < enc::MSG_HDR;
    obs.case(mix(77, mix(i as u64, mix(k.min(64) as u64, items.get(i).map(|x| x.hdr().mtype).unwrap_or(0) as u64))));
    let r = mon::catch(|| decode_messages(&mut Cursor::new(&stream[..cut])));
    let replay = json!({"kinds": kinds(items), "cut": cut, "message_index": i, "offset_in_message": k,
        "stream_hex": crate::ev::hex(&stream[..cut.min(6000)])});
    match r {
        Err(p) => obs.violation(format!("decode_messages {}", p.signature()), p.message, replay),
        Ok(Ok(v)) => {
            if cut == stream.len() || within_header_fragment {
                if v.len() != i {
                    obs.violation(
                        "trailing fragment shorter than a header changes the message count",
                        format!("cut {} bytes into message {}: expected {} messages, got {}", k, i, i, v.len()),
                        replay,
                    );
                } else {
                    obs.count("header_fragment_cuts_ignored", 1);
                }
            } else {
                obs.violation(
                    "stream cut inside a message body accepted as a shorter list",
                    format!(
                        "cut {} bytes into message {} ({}): Ok with {} messages",
                        k,
                        i,
                        items[i].kind_char(),
                        v.len()
                    ),
                    replay,
                );
            }
        }
        Ok(Err(_)) => {
            if within_header_fragment || cut == stream.len() {
                obs.violation(
                    "trailing fragment shorter than a header reported as an error",
                    format!("cut {} bytes into message {}", k, i),
                    replay,
                );
            } else {
                obs.count("body_cuts_reported_as_error", 1);
            }
        }
    }
}

fn bounds_of(items: &[Item]) -> (Vec<u8>, Vec<usize>) {
    let mut stream = Vec::new();
    let mut bounds = vec![0usize];
    for it in items {
        stream.extend_from_slice(it.bytes());
        bounds.push(stream.len());
    }
    (stream, bounds)
}

pub fn run(ctx: &mut Ctx) {
    ctx.rule = "a case is one stream (sequence of well-formed frames over all 256 type codes and contiguous type-31 messages) decoded whole, or one truncation point of a stream; \
distinct = distinct kind sequences / (message index, offset-in-message class, type) of a cut; oracle = count, per-entry equality with the message decoded alone, header fields, placeholder kind, final position == length; cut within 28 bytes after a boundary => Ok with i messages, cut inside a body => Err"
        .into();
    ctx.exhaustive = Some("all 2,801 sequences of length <= 4 over the 7-symbol alphabet {2, 5, 15, 31a, 31b, 0, 255}; every cut point of every stream of <= 3 messages among them in quick (<= 6 in thorough, sampled)".into());
    ctx.assumptions = vec!["type-31 messages are laid out contiguously with the last-pointed block physically last (the statement's precondition)".into()];
    ctx.floor_evaluations = 5_000;
    let seed = ctx.seed;
    // Streams of radials decoded again and again on all worker threads at once: every thread has
    // its own stream (every radial carries the volume, elevation and radial blocks, each with
    // contents of its own) and decodes it eight times in a row; every entry of every pass is
    // compared field by field with what was encoded.  Nothing another thread decodes meanwhile may
    // show up in it.
    let hot: u64 = ctx.tier.pick(1_200, 40_000);
    par_cases(ctx, hot, |i, obs| {
        let mut rng = Rng::derive(seed, 33, i);
        let mut specs: Vec<Msg31> = Vec::new();
        let mut stream: Vec<u8> = Vec::new();
        // as in real volumes, the radials of one stream carry the same volume block, and runs of
        // them the same elevation and radial blocks; other threads' streams carry others
        let shared = gen_msg31(&mut rng, 0b0000000111, false, false);
        let share_all = rng.chance(2, 3);
        for k in 0..rng.urange(6, 14) {
            let subset = 0b0000000111 | ((rng.below(128) as u16) << 3);
            let mut spec = gen_msg31(&mut rng, subset, false, false);
            for (b, sb) in spec.blocks.iter_mut().zip(shared.blocks.iter()) {
                match (&*b, sb) {
                    (enc::Block::Vol(_), enc::Block::Vol(_)) => *b = sb.clone(),
                    (enc::Block::Elv(_), enc::Block::Elv(_)) | (enc::Block::Rad(_), enc::Block::Rad(_)) if share_all || k % 4 != 0 => *b = sb.clone(),
                    _ => {}
                }
            }
            for b in spec.blocks.iter_mut() {
                if let enc::Block::Mom(m) = b {
                    m.gates %= 24;
                    m.data.truncate(m.gates as usize * (m.word as usize / 8));
                }
            }
            let hdr = MsgHeader::realistic(&mut rng, 31);
            let body = spec.encode(&mut rng);
            stream.extend_from_slice(&enc::msg31_bytes(&hdr, &body));
            specs.push(spec);
        }
        obs.case(mix(0x407, i));
        for pass in 0..8 {
            let replay = json!({"scenario": "stream of radials decoded repeatedly on all threads", "index": i, "pass": pass, "radials": specs.len(), "stream_hex": crate::ev::hex_abbrev(&stream, 256)});
            match mon::catch(|| decode_messages(&mut Cursor::new(&stream[..]))) {
                Err(p) => {
                    obs.violation(format!("decode_messages {}", p.signature()), p.message, replay);
                    return;
                }
                Ok(Err(e)) => {
                    obs.violation("decode_messages error on well-formed stream", format!("{e:?}"), replay);
                    return;
                }
                Ok(Ok(v)) => {
                    if v.len() != specs.len() {
                        obs.violation("message count differs", format!("{} messages in, {} out", specs.len(), v.len()), replay);
                        return;
                    }
                    for (k, (m, spec)) in v.into_iter().zip(specs.iter()).enumerate() {
                        let MessageContents::DigitalRadarData(r) = m.into_contents() else {
                            obs.violation("entry differs from the same message decoded alone", format!("entry {} is not a radial", k), replay);
                            return;
                        };
                        if let Some(d) = cmp31::compare(spec, &r).first() {
                            obs.violation(
                                "entry differs from the message that was encoded (stream decoded repeatedly on all worker threads)",
                                format!("pass {} entry {}: field {} {}", pass, k, d.field, d.detail),
                                replay,
                            );
                            return;
                        }
                    }
                    obs.count("passes_over_a_stream_of_radials_field_exact", 1);
                }
            }
        }
    });


    // ---- exhaustive small scope --------------------------------------------------------------
    let mut rng = Rng::derive(seed, 3, 0);
    let alphabet: Vec<Item> = vec![
        gen_fixed(&mut rng, 2),
        gen_fixed(&mut rng, 5),
        gen_fixed(&mut rng, 15),
        gen_radial(&mut rng),
        gen_radial(&mut rng),
        gen_fixed(&mut rng, 0),
        gen_fixed(&mut rng, 255),
    ];
    let mut seqs: Vec<Vec<usize>> = vec![vec![]];
    for len in 1..=4usize {
        for code in 0..7usize.pow(len as u32) {
            let mut c = code;
            seqs.push(
                (0..len)
                    .map(|_| {
                        let v = c % 7;
                        c /= 7;
                        v
                    })
                    .collect(),
            );
        }
    }
    let alphabet_ref = &alphabet;
    let seqs_ref = &seqs;
    par_cases(ctx, seqs.len() as u64, |i, obs| {
        let items: Vec<Item> = seqs_ref[i as usize].iter().map(|&k| alphabet_ref[k].clone()).collect();
        if items.is_empty() {
            obs.case_trivial();
            match mon::catch(|| decode_messages(&mut Cursor::new(&[][..]))) {
                Ok(Ok(v)) if v.is_empty() => obs.count("empty_stream_gives_no_messages", 1),
                _ => obs.violation("empty stream", "did not decode to an empty list", json!({})),
            }
            return;
        }
        check_stream(obs, &items, i % 2 == 0, mix(1, i));
    });

    // every cut of short streams from the alphabet
    let cut_lens = ctx.tier.pick(2usize, 3usize);
    let short: Vec<&Vec<usize>> = seqs.iter().filter(|s| !s.is_empty() && s.len() <= cut_lens).collect();
    let short_ref = &short;
    par_cases(ctx, short.len() as u64, |i, obs| {
        let items: Vec<Item> = short_ref[i as usize].iter().map(|&k| alphabet_ref[k].clone()).collect();
        let (stream, bounds) = bounds_of(&items);
        for cut in 0..=stream.len() {
            check_cut(obs, &items, &stream, &bounds, cut);
        }
        obs.count("streams_cut_at_every_byte", 1);
    });

    // ---- random streams ------------------------------------------------------------------------
    let n_streams: u64 = ctx.tier.pick(3_000, 60_000);
    par_cases(ctx, n_streams, |i, obs| {
        let mut rng = Rng::derive(seed, 3, 1000 + i);
        let len = match rng.below(8) {
            0 => 1,
            1 => rng.urange(100, 300),
            _ => rng.urange(1, 40),
        };
        let mut items: Vec<Item> = Vec::with_capacity(len);
        let mut code_cursor = rng.u8();
        for _ in 0..len {
            // a radial with its predecessor's exact layout and another moment in the last slot
            if !items.is_empty() && rng.chance(1, 8) {
                let prev: Item = items[items.len() - 1].clone();
                if let Some(t) = twin_radial(&prev, &mut rng) {
                    items.push(t);
                    continue;
                }
            }
            // a retransmitted message: byte-identical to its predecessor, still a message of its own
            if !items.is_empty() && rng.chance(1, 10) {
                let prev: Item = items[items.len() - 1].clone();
                items.push(prev);
                continue;
            }
            let it = match rng.below(5) {
                0 | 1 => gen_radial(&mut rng),
                2 => {
                    let c = *rng.pick(&[2u8, 5, 15, 18, 3, 13]);
                    gen_fixed(&mut rng, c)
                }
                _ => {
                    // sweep through all 256 codes across the run
                    code_cursor = code_cursor.wrapping_add(1);
                    if code_cursor == 31 {
                        gen_radial(&mut rng)
                    } else {
                        gen_fixed(&mut rng, code_cursor)
                    }
                }
            };
            items.push(it);
        }
        // one stream in six is a whole number of 2432-byte frames long although it holds
        // variable-length messages (fill in front of the last block of its last radial): a length
        // that looks like a metadata record's says nothing about what the record holds
        if rng.chance(1, 6) {
            let total: usize = items.iter().map(|it| it.bytes().len()).sum();
            let pad = (2432 - total % 2432) % 2432;
            if let Some(Item::Radial { hdr, spec, bytes }) = items.iter_mut().rev().find(|it| matches!(it, Item::Radial { spec, .. } if !spec.blocks.is_empty())) {
                let n = spec.blocks.len();
                if spec.gaps.len() == n && spec.is_frameable() {
                    spec.gaps[n - 1] += pad;
                    let body = spec.encode(&mut rng);
                    *bytes = enc::msg31_bytes(hdr, &body);
                    obs.count("streams_a_whole_number_of_frames_long", 1);
                }
            }
        }
        let mut shape = mix(2, len as u64);
        for it in &items {
            shape = mix(shape, it.hdr().mtype as u64);
        }
        check_stream(obs, &items, i % 3 == 0, shape);
        for it in &items {
            obs.max("type_code_seen", it.hdr().mtype as u64);
        }
        if obs.want_sample() && i % 211 == 0 {
            obs.sample(json!({"kinds": kinds(&items[..items.len().min(24)]), "messages": items.len(),
                "stream_bytes": items.iter().map(|x| x.bytes().len()).sum::<usize>()}));
        }
        // cuts near every boundary plus random cuts
        let (stream, bounds) = bounds_of(&items);
        let lim = if items.len() <= 6 { 40i64 } else { 3 };
        let mut cuts: Vec<usize> = Vec::new();
        for &b in bounds.iter().take(12) {
            for d in -lim..=lim {
                let c = b as i64 + d;
                if c >= 0 && c as usize <= stream.len() {
                    cuts.push(c as usize);
                }
            }
        }
        for _ in 0..10 {
            cuts.push(rng.urange(0, stream.len()));
        }
        cuts.sort();
        cuts.dedup();
        for c in cuts {
            check_cut(obs, &items, &stream, &bounds, c);
        }
    });

    // every type code must have been framed at least once
    let mut rng = Rng::derive(seed, 3, 2);
    for code in 0..=255u8 {
        if code == 31 {
            continue;
        }
        let items = vec![gen_fixed(&mut rng, code), gen_radial(&mut rng), gen_fixed(&mut rng, code)];
        let mut obs = Obs::new();
        check_stream(&mut obs, &items, false, mix(3, code as u64));
        obs.count("type_codes_framed_exhaustively", 1);
        ctx.obs.merge(obs);
    }
}
