//! C11 — Volume Coverage Pattern message: layout, scaling and bit fields.

use crate::enc::{self, gen_vcp, MsgHeader, Vcp};
use crate::ev::{Ctx, Obs};
use crate::mon;
use crate::rng::{mix, Rng};
use nexrad_decode::messages::volume_coverage_pattern::{
    decode_volume_coverage_pattern, ElevationDataBlock, Header, Message,
};
use nexrad_decode::messages::{decode_messages, MessageContents};
use serde_json::json;
use std::io::Cursor;
#[cfg(feature = "dec-uom")]
use uom::si::angle::degree;
#[cfg(feature = "dec-uom")]
use uom::si::angular_velocity::degree_per_second;
#[cfg(feature = "dec-uom")]
use uom::si::velocity::meter_per_second;

fn decode_body(body: &[u8]) -> Result<Message, String> {
    match mon::catch(|| decode_volume_coverage_pattern(&mut &body[..])) {
        // (every third result is handed on as a clone: a copy holds what the original holds)
        Ok(Ok(m)) => Ok(if body.len() % 3 == 1 { m.clone() } else { m }),
        Ok(Err(e)) => Err(format!("error {e:?}")),
        Err(p) => Err(p.signature()),
    }
}

/// The same body through a reader that returns short reads (legal for `Read`).
fn decode_body_dribbled(body: &[u8], seed: u64) -> Result<Message, String> {
    let mut r = mon::DribbleReader::new(Cursor::new(body), seed);
    match mon::catch(|| decode_volume_coverage_pattern(&mut r)) {
        Ok(Ok(m)) => Ok(m),
        Ok(Err(e)) => Err(format!("error {e:?}")),
        Err(p) => Err(p.signature()),
    }
}

fn cmp_layout(obs: &mut Obs, spec: &Vcp, got: &Message, replay: &serde_json::Value) -> bool {
    let mut ok = true;
    let mut bad = |field: &str, want: String, g: String| {
        ok = false;
        obs.violation(
            format!("layout field {}", field),
            format!("wrote {}, decoded {}", want, g),
            replay.clone(),
        );
    };
    macro_rules! f {
        ($name:expr, $g:expr, $w:expr) => {
            if $g != $w {
                bad($name, format!("{:?}", $w), format!("{:?}", $g));
            }
        };
    }
    let h = &got.header;
    let w = &spec.hdr;
    f!("header.message_size", h.message_size, w.size);
    f!("header.pattern_type", h.pattern_type, w.pattern_type);
    f!("header.pattern_number", h.pattern_number, w.pattern_number);
    f!("header.number_of_elevation_cuts", h.number_of_elevation_cuts, w.cuts);
    f!("header.version", h.version, w.version);
    f!("header.clutter_map_group_number", h.clutter_map_group_number, w.clutter_group);
    f!("header.doppler_velocity_resolution", h.doppler_velocity_resolution, w.doppler_res);
    f!("header.pulse_width", h.pulse_width, w.pulse_width);
    f!("header.reserved_1", h.reserved_1, w.reserved1);
    f!("header.vcp_sequencing", h.vcp_sequencing, w.sequencing);
    f!("header.vcp_supplemental_data", h.vcp_supplemental_data, w.supplemental);
    f!("header.reserved_2", h.reserved_2, w.reserved2);
    if got.elevations.len() != spec.cuts.len() {
        bad(
            "elevations.len",
            format!("{}", spec.cuts.len()),
            format!("{}", got.elevations.len()),
        );
        return false;
    }
    for (i, (g, c)) in got.elevations.iter().zip(spec.cuts.iter()).enumerate() {
        let _ = i;
        f!("cut.elevation_angle", g.elevation_angle, c.angle);
        f!("cut.channel_configuration", g.channel_configuration, c.channel);
        f!("cut.waveform_type", g.waveform_type, c.waveform);
        f!("cut.super_resolution_control", g.super_resolution_control, c.super_res);
        f!("cut.surveillance_prf_number", g.surveillance_prf_number, c.surv_prf);
        f!("cut.surveillance_prf_pulse_count_radial", g.surveillance_prf_pulse_count_radial, c.surv_pulses);
        f!("cut.azimuth_rate", g.azimuth_rate, c.az_rate);
        f!("cut.reflectivity_threshold", g.reflectivity_threshold, c.thresholds[0]);
        f!("cut.velocity_threshold", g.velocity_threshold, c.thresholds[1]);
        f!("cut.spectrum_width_threshold", g.spectrum_width_threshold, c.thresholds[2]);
        f!("cut.differential_reflectivity_threshold", g.differential_reflectivity_threshold, c.thresholds[3]);
        f!("cut.differential_phase_threshold", g.differential_phase_threshold, c.thresholds[4]);
        f!("cut.correlation_coefficient_threshold", g.correlation_coefficient_threshold, c.thresholds[5]);
        f!("cut.sector_1_edge_angle", g.sector_1_edge_angle, c.edge1);
        f!("cut.sector_1_doppler_prf_number", g.sector_1_doppler_prf_number, c.prf1);
        f!("cut.sector_1_doppler_prf_pulse_count_radial", g.sector_1_doppler_prf_pulse_count_radial, c.pulses1);
        f!("cut.supplemental_data", g.supplemental_data, c.supplemental);
        f!("cut.sector_2_edge_angle", g.sector_2_edge_angle, c.edge2);
        f!("cut.sector_2_doppler_prf_number", g.sector_2_doppler_prf_number, c.prf2);
        f!("cut.sector_2_doppler_prf_pulse_count_radial", g.sector_2_doppler_prf_pulse_count_radial, c.pulses2);
        f!("cut.ebc_angle", g.ebc_angle, c.ebc);
        f!("cut.sector_3_edge_angle", g.sector_3_edge_angle, c.edge3);
        f!("cut.sector_3_doppler_prf_number", g.sector_3_doppler_prf_number, c.prf3);
        f!("cut.sector_3_doppler_prf_pulse_count_radial", g.sector_3_doppler_prf_pulse_count_radial, c.pulses3);
        f!("cut.reserved", g.reserved, c.reserved);
    }
    ok
}

fn close(a: f64, b: f64) -> bool {
    a == b || (a - b).abs() <= 1e-9 * a.abs().max(b.abs()).max(1.0)
}

fn angle(raw: u16) -> f64 {
    (raw >> 3) as f64 * 180.0 / 4096.0
}
fn rate(raw: u16) -> f64 {
    let m = ((raw >> 3) & 0xFFF) as f64 * 22.5 / 2048.0;
    if raw & 0x8000 != 0 {
        -m
    } else {
        m
    }
}

fn acc<T: PartialEq + std::fmt::Debug>(
    obs: &mut Obs,
    name: &str,
    raw: u32,
    f: impl FnOnce() -> T,
    want: T,
) {
    match mon::catch(f) {
        Ok(v) if v == want => obs.count("accessor_values_equal_to_icd_encoding", 1),
        Ok(v) => obs.violation(
            format!("accessor {}", name),
            format!("raw {:#06x}: expected {:?}, observed {:?}", raw, want, v),
            json!({"accessor": name, "raw": raw}),
        ),
        Err(p) => obs.violation(
            format!("accessor {} {}", name, p.signature()),
            p.message,
            json!({"accessor": name, "raw": raw}),
        ),
    }
}

fn accf(obs: &mut Obs, name: &str, raw: u32, f: impl FnOnce() -> f64, want: f64, exact: bool) {
    match mon::catch(f) {
        Ok(v) if (exact && v == want) || (!exact && close(v, want)) => {
            obs.count("accessor_values_equal_to_icd_encoding", 1)
        }
        Ok(v) => obs.violation(
            format!("accessor {}", name),
            format!("raw {:#06x}: expected {:?}, observed {:?}", raw, want, v),
            json!({"accessor": name, "raw": raw}),
        ),
        Err(p) => obs.violation(
            format!("accessor {} {}", name, p.signature()),
            p.message,
            json!({"accessor": name, "raw": raw}),
        ),
    }
}

fn sweep_cut_u16(obs: &mut Obs, base: &ElevationDataBlock) {
    for raw in 0..=65_535u16 {
        obs.case(mix(110, raw as u64));
        let r = raw as u32;
        let mut c = base.clone();
        c.elevation_angle = raw;
        c.sector_1_edge_angle = raw;
        c.sector_2_edge_angle = raw.rotate_left(1);
        c.sector_3_edge_angle = raw.rotate_left(2);
        c.ebc_angle = raw.rotate_left(3);
        c.azimuth_rate = raw;
        c.reflectivity_threshold = raw as i16;
        c.velocity_threshold = raw.wrapping_add(1) as i16;
        c.spectrum_width_threshold = raw.wrapping_add(2) as i16;
        c.differential_reflectivity_threshold = raw.wrapping_add(3) as i16;
        c.differential_phase_threshold = raw.wrapping_add(4) as i16;
        c.correlation_coefficient_threshold = raw.wrapping_add(5) as i16;
        c.supplemental_data = raw;
        accf(obs, "elevation_angle_degrees", r, || c.elevation_angle_degrees(), angle(raw), true);
        #[cfg(feature = "dec-uom")]
        accf(obs, "elevation_angle(uom)", r, || c.elevation_angle().get::<degree>(), angle(raw), false);
        accf(obs, "sector_1_edge_angle_degrees", r, || c.sector_1_edge_angle_degrees(), angle(raw), true);
        #[cfg(feature = "dec-uom")]
        accf(obs, "sector_1_edge_angle(uom)", r, || c.sector_1_edge_angle().get::<degree>(), angle(raw), false);
        accf(obs, "sector_2_edge_angle_degrees", r, || c.sector_2_edge_angle_degrees(), angle(raw.rotate_left(1)), true);
        #[cfg(feature = "dec-uom")]
        accf(obs, "sector_2_edge_angle(uom)", r, || c.sector_2_edge_angle().get::<degree>(), angle(raw.rotate_left(1)), false);
        accf(obs, "sector_3_edge_angle_degrees", r, || c.sector_3_edge_angle_degrees(), angle(raw.rotate_left(2)), true);
        #[cfg(feature = "dec-uom")]
        accf(obs, "sector_3_edge_angle(uom)", r, || c.sector_3_edge_angle().get::<degree>(), angle(raw.rotate_left(2)), false);
        accf(obs, "ebc_angle_degrees", r, || c.ebc_angle_degrees(), angle(raw.rotate_left(3)), true);
        #[cfg(feature = "dec-uom")]
        accf(obs, "ebc_angle(uom)", r, || c.ebc_angle().get::<degree>(), angle(raw.rotate_left(3)), false);
        accf(obs, "azimuth_rate_degrees_per_second", r, || c.azimuth_rate_degrees_per_second(), rate(raw), true);
        #[cfg(feature = "dec-uom")]
        accf(obs, "azimuth_rate(uom)", r, || c.azimuth_rate().get::<degree_per_second>(), rate(raw), false);
        accf(obs, "reflectivity_threshold", r, || c.reflectivity_threshold(), (raw as i16) as f64 / 8.0, true);
        accf(obs, "velocity_threshold", r, || c.velocity_threshold(), (raw.wrapping_add(1) as i16) as f64 / 8.0, true);
        accf(obs, "spectrum_width_threshold", r, || c.spectrum_width_threshold(), (raw.wrapping_add(2) as i16) as f64 / 8.0, true);
        accf(obs, "differential_reflectivity_threshold", r, || c.differential_reflectivity_threshold(), (raw.wrapping_add(3) as i16) as f64 / 8.0, true);
        accf(obs, "differential_phase_threshold", r, || c.differential_phase_threshold(), (raw.wrapping_add(4) as i16) as f64 / 8.0, true);
        accf(obs, "correlation_coefficient_threshold", r, || c.correlation_coefficient_threshold(), (raw.wrapping_add(5) as i16) as f64 / 8.0, true);
        acc(obs, "supplemental_data_sails_cut", r, || c.supplemental_data_sails_cut(), raw & 1 != 0);
        acc(obs, "supplemental_data_sails_sequence_number", r, || c.supplemental_data_sails_sequence_number(), ((raw >> 1) & 7) as u8);
        acc(obs, "supplemental_data_mrle_cut", r, || c.supplemental_data_mrle_cut(), raw & (1 << 4) != 0);
        acc(obs, "supplemental_data_mrle_sequence_number", r, || c.supplemental_data_mrle_sequence_number(), ((raw >> 5) & 7) as u8);
        acc(obs, "supplemental_data_mpda_cut", r, || c.supplemental_data_mpda_cut(), raw & (1 << 9) != 0);
        acc(obs, "supplemental_data_base_tilt_cut", r, || c.supplemental_data_base_tilt_cut(), raw & (1 << 10) != 0);
    }
}

fn sweep_cut_u8(obs: &mut Obs, base: &ElevationDataBlock) {
    for raw in 0..=255u8 {
        obs.case(mix(111, raw as u64));
        let r = raw as u32;
        let mut c = base.clone();
        c.super_resolution_control = raw;
        c.channel_configuration = raw;
        c.waveform_type = raw;
        acc(obs, "super_resolution_control_half_degree_azimuth", r, || c.super_resolution_control_half_degree_azimuth(), raw & 1 != 0);
        acc(obs, "super_resolution_control_quarter_km_reflectivity", r, || c.super_resolution_control_quarter_km_reflectivity(), raw & 2 != 0);
        acc(obs, "super_resolution_control_doppler_to_300km", r, || c.super_resolution_control_doppler_to_300km(), raw & 4 != 0);
        acc(obs, "super_resolution_control_dual_polarization_to_300km", r, || c.super_resolution_control_dual_polarization_to_300km(), raw & 8 != 0);
        let ch = match raw {
            0 => "ConstantPhase",
            1 => "RandomPhase",
            2 => "SZ2Phase",
            _ => "UnknownPhase",
        };
        acc(obs, "channel_configuration", r, || format!("{:?}", c.channel_configuration()), ch.to_string());
        let wf = match raw {
            1 => "CS",
            2 => "CDW",
            3 => "CDWO",
            4 => "B",
            5 => "SPP",
            _ => "Unknown",
        };
        acc(obs, "waveform_type", r, || format!("{:?}", c.waveform_type()), wf.to_string());
    }
}

fn sweep_header(obs: &mut Obs, base: &Header) {
    for raw in 0..=65_535u16 {
        obs.case(mix(112, raw as u64));
        let r = raw as u32;
        let mut h = base.clone();
        h.vcp_sequencing = raw;
        h.vcp_supplemental_data = raw;
        h.pattern_type = raw;
        acc(obs, "vcp_sequencing_number_of_elevations", r, || h.vcp_sequencing_number_of_elevations(), (raw & 0x1F) as u8);
        acc(obs, "vcp_sequencing_maximum_sails_cuts", r, || h.vcp_sequencing_maximum_sails_cuts(), ((raw >> 5) & 3) as u8);
        acc(obs, "vcp_sequencing_sequence_active", r, || h.vcp_sequencing_sequence_active(), raw & (1 << 13) != 0);
        acc(obs, "vcp_sequencing_truncated_vcp", r, || h.vcp_sequencing_truncated_vcp(), raw & (1 << 14) != 0);
        acc(obs, "vcp_supplemental_data_sails_vcp", r, || h.vcp_supplemental_data_sails_vcp(), raw & 1 != 0);
        acc(obs, "vcp_supplemental_data_number_sails_cuts", r, || h.vcp_supplemental_data_number_sails_cuts(), ((raw >> 1) & 7) as u8);
        acc(obs, "vcp_supplemental_data_mrle_vcp", r, || h.vcp_supplemental_data_mrle_vcp(), raw & (1 << 4) != 0);
        acc(obs, "vcp_supplemental_data_number_mrle_cuts", r, || h.vcp_supplemental_data_number_mrle_cuts(), ((raw >> 5) & 7) as u8);
        acc(obs, "vcp_supplemental_data_mpda_vcp", r, || h.vcp_supplemental_data_mpda_vcp(), raw & (1 << 11) != 0);
        acc(obs, "vcp_supplemental_data_base_tilt_vcp", r, || h.vcp_supplemental_data_base_tilt_vcp(), raw & (1 << 12) != 0);
        acc(obs, "vcp_supplemental_data_base_tilts", r, || h.vcp_supplemental_data_base_tilts(), ((raw >> 13) & 7) as u8);
        acc(obs, "pattern_type", r, || format!("{:?}", h.pattern_type()), (if raw == 2 { "Constant" } else { "Unknown" }).to_string());
    }
    for raw in 0..=255u8 {
        obs.case(mix(113, raw as u64));
        let r = raw as u32;
        let mut h = base.clone();
        h.pulse_width = raw;
        h.doppler_velocity_resolution = raw;
        let pw = match raw {
            2 => "Short",
            4 => "Long",
            _ => "Unknown",
        };
        acc(obs, "pulse_width", r, || format!("{:?}", h.pulse_width()), pw.to_string());
        let dv = match raw {
            2 => Some(0.5),
            4 => Some(1.0),
            _ => None,
        };
        acc(obs, "doppler_velocity_resolution_meters_per_second", r, || h.doppler_velocity_resolution_meters_per_second(), dv);
        #[cfg(feature = "dec-uom")]
        acc(obs, "doppler_velocity_resolution(uom)", r, || h.doppler_velocity_resolution().map(|v| v.get::<meter_per_second>()), dv);
    }
}

/// The summary's VCP info must mirror the accessors.
fn check_summary(obs: &mut Obs, spec: &Vcp, rng: &mut Rng, replay: &serde_json::Value) {
    let mh = MsgHeader::realistic(rng, 5);
    let frame = enc::frame(&mh, &spec.encode(), rng.u8());
    let msgs = match mon::catch(|| decode_messages(&mut Cursor::new(&frame[..]))) {
        Ok(Ok(m)) if m.len() == 1 => m,
        other => {
            obs.violation(
                "type-5 frame does not decode to one message",
                format!("{:?}", other.map(|r| r.map(|v| v.len()))),
                replay.clone(),
            );
            return;
        }
    };
    let MessageContents::VolumeCoveragePattern(m) = msgs[0].contents() else {
        obs.violation("type-5 frame surfaced with wrong contents", "", replay.clone());
        return;
    };
    if !cmp_layout(obs, spec, m, replay) {
        return;
    }
    obs.count("framed_type5_messages_checked", 1);
    let summary = match mon::catch(|| nexrad_decode::summarize::messages(&msgs)) {
        Ok(s) => s,
        Err(p) => {
            obs.violation(format!("summarize {}", p.signature()), p.message, replay.clone());
            return;
        }
    };
    let Some(info) = summary.message_groups.first().and_then(|g| g.vcp_info.clone()) else {
        obs.violation("summary has no VCP info for a VCP message", "", replay.clone());
        return;
    };
    let mut want_features = Vec::new();
    let s = spec.hdr.supplemental;
    let q = spec.hdr.sequencing;
    if s & 1 != 0 {
        want_features.push(format!("SAILS ({} cuts)", (s >> 1) & 7));
    }
    if s & (1 << 4) != 0 {
        want_features.push(format!("MRLE ({} cuts)", (s >> 5) & 7));
    }
    if s & (1 << 11) != 0 {
        want_features.push("MPDA".to_string());
    }
    if s & (1 << 12) != 0 {
        want_features.push(format!("Base tilts ({} cuts)", (s >> 13) & 7));
    }
    if q & (1 << 13) != 0 {
        want_features.push("VCP sequence active".to_string());
    }
    if q & (1 << 14) != 0 {
        want_features.push("Truncated VCP".to_string());
    }
    let ok = info.pattern_number == spec.hdr.pattern_number
        && info.version == spec.hdr.version
        && info.number_of_elevation_cuts == spec.hdr.cuts
        && info.vcp_features == want_features
        && info.elevations.len() == spec.cuts.len()
        && info.elevations.iter().zip(spec.cuts.iter()).all(|(e, c)| {
            e.elevation_angle == angle(c.angle)
                && e.azimuth_rate == rate(c.az_rate)
                && e.super_resolution_features.len() == (c.super_res & 0xF).count_ones() as usize
        });
    // the same pattern sent again at once with another cut table (SAILS switched on, a cut
    // changed): two messages, two summaries - the second mirrors the second message
    if ok && rng.chance(1, 3) && !spec.cuts.is_empty() {
        let mut again = spec.clone();
        again.hdr.supplemental ^= 1 | (3 << 1);
        if let Some(c) = again.cuts.last_mut() {
            c.angle = c.angle.wrapping_add(8 * 40);
            c.az_rate ^= 0x0100;
        }
        let mh2 = MsgHeader::realistic(rng, 5);
        let mut stream = frame.clone();
        stream.extend_from_slice(&enc::frame(&mh2, &again.encode(), rng.u8()));
        match mon::catch(|| decode_messages(&mut Cursor::new(&stream[..])).map(|m| nexrad_decode::summarize::messages(&m))) {
            Ok(Ok(sum)) => {
                // whichever way the two messages are grouped, the VCP info reported for the *last*
                // VCP message must be that message's
                let last_info = sum.message_groups.iter().rev().find_map(|g| g.vcp_info.clone());
                let s2 = again.hdr.supplemental;
                let mirrors = last_info.as_ref().map(|i| {
                    i.elevations.len() == again.cuts.len()
                        && i.elevations.last().map(|e| e.elevation_angle == angle(again.cuts[again.cuts.len() - 1].angle) && e.azimuth_rate == rate(again.cuts[again.cuts.len() - 1].az_rate)).unwrap_or(false)
                        && i.vcp_features.iter().any(|f| f.starts_with("SAILS")) == (s2 & 1 != 0)
                });
                let groups_with_info = sum.message_groups.iter().filter(|g| g.vcp_info.is_some()).count();
                if mirrors != Some(true) || groups_with_info != 2 {
                    obs.violation(
                        "summary of a repeated pattern number does not mirror the second message",
                        format!("{} groups with VCP info; last info {:?}", groups_with_info, last_info.map(|i| (i.pattern_number, i.vcp_features, i.elevations.len()))),
                        replay.clone(),
                    );
                    return;
                }
                obs.count("repeated_pattern_numbers_summarised_separately", 1);
            }
            other => {
                obs.violation("two type-5 frames do not decode and summarise", format!("{:?}", other.map(|r| r.is_ok())), replay.clone());
                return;
            }
        }
    }
    if ok {
        obs.count("summaries_mirror_accessors", 1);
    } else {
        obs.violation(
            "summary VCP info does not mirror the message",
            format!("info {:?} / features wanted {:?}", (info.pattern_number, info.version, info.number_of_elevation_cuts, &info.vcp_features), want_features),
            replay.clone(),
        );
    }
}

pub fn run(ctx: &mut Ctx) {
    ctx.rule = "layout: one case per generated VCP body (hand-encoded 11-halfword header + n x 23-halfword cuts, distinct field values) decoded raw and framed as type 5; scaling/bit fields: one case per raw value of the exhaustive sweeps; \
distinct = distinct (cut count, layout seed) and raw values; oracle = fields at ICD offsets; angle = (raw>>3)*180/4096, rate = ((raw>>3)&0xFFF)*22.5/2048 negated on bit 15, threshold = raw/8 (exact f64 equality; uom variants within 1e-9), every flag/sub-field equal to its documented bit slice for every raw; overlong cut counts and short bodies are errors; summary VCP info mirrors the accessors"
        .into();
    ctx.exhaustive = Some("cut counts 0..=51 all; all 65,536 raws for 18 scaled accessors and 17 flag/sub-field accessors; all 256 raws for byte-wide codes".into());
    ctx.floor_evaluations = 100_000;
    let seed = ctx.seed;
    let mut rng = Rng::derive(seed, 11, 0);
    let reps = ctx.tier.pick(100, 4_000);

    // ---- layout, every cut count --------------------------------------------------------------------
    let mut base_msg: Option<Message> = None;
    for rep in 0..reps {
        if rep % 16 == 1 {
            crate::props::poison::run(rep as u64);
        }
        for n in 0..=51usize {
            let spec = gen_vcp(&mut rng, n);
            let body = spec.encode();
            ctx.obs.case(mix(114, mix(n as u64, rep)));
            let replay = json!({"cuts": n, "body_hex": crate::ev::hex(&body)});
            match decode_body(&body) {
                Err(e) => ctx.obs.violation(format!("well-formed VCP refused: {}", e), "", replay.clone()),
                Ok(m) => {
                    if cmp_layout(&mut ctx.obs, &spec, &m, &replay) {
                        ctx.obs.count("vcp_bodies_field_exact", 1);
                        ctx.obs.count("cuts_checked", n as u64);
                    }
                    if n == 3 && base_msg.is_none() {
                        base_msg = Some(m);
                    }
                }
            }
            // the result must not depend on how the reader chunks its data
            match (decode_body(&body), decode_body_dribbled(&body, mix(n as u64, rep))) {
                (Ok(a), Ok(b)) if a == b => ctx.obs.count("short_read_decodes_identical", 1),
                (a, b) => ctx.obs.violation(
                    "decoding depends on how the reader chunks the bytes (short reads)",
                    format!("{} cuts: slice reader {:?}, dribbling reader {:?}", n, a.map(|m| m.elevations.len()), b.map(|m| m.elevations.len())),
                    replay.clone(),
                ),
            }
            // ... nor may a reader that fails once, transiently, inside the message make the decoder
            // start over: an error is fine, the right message is fine
            if rep % 2 == 0 {
                if let Ok(clean) = decode_body(&body) {
                    match super::decode_through_flaky_reader(&body, mix(n as u64 + 7, rep), |rd| decode_volume_coverage_pattern(rd)) {
                        Err(p) => ctx.obs.violation("decode_volume_coverage_pattern panics with a reader that fails transiently", p, replay.clone()),
                        Ok(Some(m2)) if m2 != clean || format!("{:?}", m2) != format!("{:?}", clean) => ctx.obs.violation(
                            "a transient read error inside the message yields a message decoded from other bytes",
                            format!("{} cuts", n),
                            replay.clone(),
                        ),
                        Ok(Some(_)) => ctx.obs.count("transient_read_errors_survived_with_the_right_message", 1),
                        Ok(None) => ctx.obs.count("transient_read_errors_reported_as_errors", 1),
                    }
                }
            }
            check_summary(&mut ctx.obs, &spec, &mut rng, &replay);
            // one cut short => error (raw body), any strict prefix => error
            if n > 0 {
                let short = &body[..body.len() - 46];
                if decode_body(short).is_ok() {
                    ctx.obs.violation("body one cut short accepted", format!("{} cuts declared", n), replay.clone());
                } else {
                    ctx.obs.count("short_bodies_rejected", 1);
                }
                let cut = rng.usize_below(body.len());
                if decode_body(&body[..cut]).is_ok() {
                    ctx.obs.violation("truncated body accepted", format!("{} cuts, cut at {}", n, cut), replay.clone());
                } else {
                    ctx.obs.count("short_bodies_rejected", 1);
                }
            }
            if ctx.obs.want_sample() && rep == 0 && n % 13 == 2 {
                ctx.obs.sample(json!({"cuts": n, "header": format!("{:?}", spec.hdr), "first_cut": spec.cuts.first().map(|c| format!("{:?}", c))}));
            }
        }
        // declared counts that do not fit the frame
        // (counts whose low byte alone would fit - 256, 257, 300, 0x0133, 0x8000 + 7 - included)
        for declared in [52u16, 53, 100, 255, 256, 257, 256 + rng.below(52) as u16, 0x0133, 1000, 0x8007, 0xFF00, 65_535] {
            let mut spec = gen_vcp(&mut rng, 51);
            spec.hdr.cuts = declared;
            let mh = MsgHeader::realistic(&mut rng, 5);
            let frame = enc::frame(&mh, &spec.encode(), rng.u8());
            ctx.obs.case(mix(115, mix(declared as u64, rep)));
            let replay = json!({"declared_cuts": declared, "frame_hex": crate::ev::hex(&frame)});
            match mon::catch(|| decode_messages(&mut Cursor::new(&frame[..]))) {
                Ok(Err(_)) => ctx.obs.count("overlong_cut_counts_rejected", 1),
                Ok(Ok(v)) => ctx.obs.violation(
                    "cut count that does not fit the frame accepted",
                    format!("declared {}: Ok with {} messages", declared, v.len()),
                    replay,
                ),
                Err(p) => ctx.obs.violation(format!("decode_messages {}", p.signature()), p.message, replay),
            }
            // the same frame followed by further frames: the bytes of the *next* message must not
            // be taken for cut blocks
            let mut stream = frame.clone();
            for _ in 0..2 {
                let h = MsgHeader::realistic(&mut rng, 2);
                stream.extend_from_slice(&enc::frame(&h, &enc::encode_halfwords(&enc::gen_rda_status_in_domain(&mut rng)), 0));
            }
            ctx.obs.case(mix(116, mix(declared as u64, rep)));
            match mon::catch(|| decode_messages(&mut Cursor::new(&stream[..]))) {
                Ok(Err(_)) => ctx.obs.count("overlong_cut_counts_rejected", 1),
                Ok(Ok(v)) => ctx.obs.violation(
                    "cut count that does not fit the frame accepted when further frames follow",
                    format!("declared {}: Ok with {} messages", declared, v.len()),
                    json!({"declared_cuts": declared, "stream_len": stream.len()}),
                ),
                Err(p) => ctx.obs.violation(format!("decode_messages {}", p.signature()), p.message, json!({"declared_cuts": declared})),
            }
            // 2404-byte body alone
            let body = &frame[enc::MSG_HDR..];
            if decode_body(body).is_ok() {
                ctx.obs.violation("cut count that does not fit the frame accepted", format!("declared {} (body)", declared), json!({"declared_cuts": declared}));
            }
        }
    }

    // ---- exhaustive raw sweeps ------------------------------------------------------------------------
    let Some(base) = base_msg else {
        ctx.obs.inconclusive("no base VCP message decoded; accessor sweeps not run");
        return;
    };
    let mut obs = Obs::new();
    sweep_cut_u16(&mut obs, &base.elevations[0]);
    sweep_cut_u8(&mut obs, &base.elevations[0]);
    sweep_header(&mut obs, &base.header);
    ctx.obs.merge(obs);
    ctx.obs.sample(json!({"sweep": "elevation_angle", "raw": "0x8008", "expected_degrees": angle(0x8008)}));
    ctx.obs.sample(json!({"sweep": "azimuth_rate", "raw": "0x8008", "expected_deg_per_s": rate(0x8008)}));
}
