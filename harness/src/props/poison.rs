//! "Poison" calls: failing and hostile calls made on a worker thread *before* a well-formed case.
//!
//! Several seeded changes kept state from one call to the next (a thread-local scratch vector not
//! cleared on the error path, a date cache, a memoised mean, a per-site cache).  A workload made
//! of well-formed cases only can never leave such state behind.  Every worker therefore makes, in
//! front of a share of its cases, a few calls that fail half-way or succeed on other data; their
//! results are ignored (totality is C04's and C06's business) - what matters is that the
//! well-formed case that follows still meets its oracle.

use crate::enc::{self, gen_msg31, gen_vcp, MsgHeader};
use crate::mon;
use crate::rng::Rng;
use std::io::Cursor;

/// A bzip2 stream of two blocks (level 1: 100 kB blocks), built once.
pub(crate) fn multi_block_stream() -> &'static [u8] {
    static S: std::sync::OnceLock<Vec<u8>> = std::sync::OnceLock::new();
    S.get_or_init(|| {
        let mut rng = Rng::derive(0x9015_0A11, 78, 0);
        let payload: Vec<u8> = (0..125_000).map(|i| if i % 3 == 0 { rng.u8() } else { (i % 251) as u8 }).collect();
        enc::bzip2_compress(&payload, 1)
    })
}

pub fn run(index: u64) {
    let mut rng = Rng::derive(0x9015_0A11, 77, index);
    for _ in 0..3 {
        match rng.below(11) {
            0 => {
                // a type-31 body cut somewhere inside
                let subset = rng.below(1024) as u16 | 8;
                let m = gen_msg31(&mut rng, subset, false, false);
                let body = m.encode(&mut rng);
                let cut = rng.usize_below(body.len().max(1));
                let _ = mon::catch(|| nexrad_decode::messages::digital_radar_data::decode_digital_radar_data(&mut Cursor::new(&body[..cut])).is_ok());
            }
            1 => {
                // a VCP that declares more cuts than it carries (fails after reading some)
                let n = rng.urange(2, 20);
                let v = gen_vcp(&mut rng, n);
                let b = v.encode();
                let cut = 22 + 46 * rng.urange(1, n - 1) + rng.usize_below(46);
                let _ = mon::catch(|| nexrad_decode::messages::volume_coverage_pattern::decode_volume_coverage_pattern(&mut Cursor::new(&b[..cut.min(b.len())])).is_ok());
            }
            2 => {
                // a clutter map cut inside its zones
                let map = enc::ClutterMap { date: rng.u16(), minutes: rng.u16(), segments: vec![(0..360).map(|_| vec![(rng.below(3) as u16, rng.u16()); 2]).collect()] };
                let b = map.encode();
                let cut = rng.urange(6, b.len() - 1);
                let _ = mon::catch(|| nexrad_decode::messages::clutter_filter_map::decode_clutter_filter_map(&mut Cursor::new(&b[..cut])).is_ok());
            }
            3 => {
                let n = rng.usize_below(119);
                let b = rng.bytes(n);
                let _ = mon::catch(|| nexrad_decode::messages::rda_status_data::decode_rda_status_message(&mut Cursor::new(&b[..])).is_ok());
            }
            4 => {
                // a stream cut inside the last message's body
                let h2 = MsgHeader::realistic(&mut rng, 2);
                let mut s = enc::frame(&h2, &enc::encode_halfwords(&enc::gen_rda_status_in_domain(&mut rng)), 0);
                let m = gen_msg31(&mut rng, 0b0000011111, false, false);
                let h31 = MsgHeader::realistic(&mut rng, 31);
                s.extend_from_slice(&enc::msg31_bytes(&h31, &m.encode(&mut rng)));
                let cut = s.len() - 1 - rng.usize_below(40);
                let _ = mon::catch(|| nexrad_decode::messages::decode_messages(&mut Cursor::new(&s[..cut])).is_ok());
            }
            5 => {
                let n = rng.usize_below(28);
                let b = rng.bytes(n);
                let _ = mon::catch(|| nexrad_decode::messages::decode_message_header(&mut Cursor::new(&b[..])).is_ok());
            }
            6 => {
                use nexrad_model::data::Sweep;
                let a = Sweep::new(1, vec![crate::props::c09::mk_radial(5, 9, 1)]);
                let b = Sweep::new(2, vec![crate::props::c09::mk_radial(6, 3, 2)]);
                let _ = mon::catch(|| a.merge(b).is_ok());
            }
            #[cfg(feature = "data")]
            7 => {
                // a record that claims to be bzip2 and is not; a multi-block stream that breaks off
                // inside a later block (fails *after* producing output); a file shorter than its header
                let mut r = vec![0, 0, 0, 12];
                r.extend_from_slice(b"BZh9");
                r.extend_from_slice(&rng.bytes(8));
                let _ = mon::catch(|| nexrad_data::volume::Record::new(r).decompress().is_ok());
                if rng.chance(1, 4) {
                    let whole = multi_block_stream();
                    let cut = whole.len() - 1 - rng.usize_below(whole.len() / 3);
                    let mut r = (cut as u32).to_be_bytes().to_vec();
                    r.extend_from_slice(&whole[..cut]);
                    let _ = mon::catch(|| nexrad_data::volume::Record::new(r).decompress().is_ok());
                }
                let n = rng.usize_below(30);
                let f = nexrad_data::volume::File::new(rng.bytes(n));
                let _ = mon::catch(|| (f.records().len(), f.header().is_ok()));
            }
            #[cfg(feature = "data")]
            8 => {
                use nexrad_data::aws::realtime::{ChunkIdentifier, VolumeIndex};
                let junk = ["", "x", "a-b-c", "20240101-000000-0x1-Q", "KDMX2024", "\u{65e5}\u{672c}\u{8a9e}\u{65e5}\u{672c}\u{8a9e}"];
                let s = junk[rng.usize_below(junk.len())];
                let id = nexrad_data::aws::archive::Identifier::new(s.to_string());
                let _ = mon::catch(|| (id.site().is_some(), id.date_time().is_some()));
                let c = ChunkIdentifier::new("KDMX".into(), VolumeIndex::new(1), s.to_string(), None);
                let _ = mon::catch(|| (c.sequence(), c.chunk_type().is_some()));
            }
            9 => {
                let code = rng.u16();
                let _ = mon::catch(|| nexrad_decode::messages::rda_status_data::alarm::get_alarm_message(code).is_some());
            }
            _ => {
                // a well-formed message whose conversion is asked for and thrown away
                let m = gen_msg31(&mut rng, 0b0000111111, false, false);
                let body = m.encode(&mut rng);
                let _ = mon::catch(|| {
                    nexrad_decode::messages::digital_radar_data::decode_digital_radar_data(&mut Cursor::new(&body[..]))
                        .ok()
                        .map(|d| d.into_radial().is_ok())
                });
            }
        }
    }
}
