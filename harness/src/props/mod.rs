//! One module per property: workload + oracle + evidence.

use crate::ev::Ctx;

#[cfg(feature = "data")]
pub mod c01;
pub mod c02;
pub mod c03;
pub mod c04;
#[cfg(feature = "data")]
pub mod c05;
#[cfg(feature = "data")]
pub mod c06;
pub mod c07;
pub mod c08;
pub mod cmp31;
pub mod poison;
pub mod c09;
pub mod c10;
pub mod c11;
pub mod c12;
pub mod c13;
pub mod c14;
#[cfg(feature = "data")]
pub mod c15;
#[cfg(feature = "data")]
pub mod c16;
#[cfg(feature = "data")]
pub mod c17;
#[cfg(feature = "data")]
pub mod c18;
#[cfg(feature = "data")]
pub mod c19;

pub type Runner = fn(&mut Ctx);

pub fn lookup(prop: &str) -> Option<Runner> {
    Some(match prop {
        #[cfg(feature = "data")]
        "C01" => c01::run,
        "C02" => c02::run,
        "C03" => c03::run,
        "C04" => c04::run,
        #[cfg(feature = "data")]
        "C05" => c05::run,
        #[cfg(feature = "data")]
        "C06" => c06::run,
        "C07" => c07::run,
        "C08" => c08::run,
        "C09" => c09::run,
        "C10" => c10::run,
        "C11" => c11::run,
        "C12" => c12::run,
        "C13" => c13::run,
        "C14" => c14::run,
        #[cfg(feature = "data")]
        "C15" => c15::run,
        #[cfg(feature = "data")]
        "C16" => c16::run,
        #[cfg(feature = "data")]
        "C17" => c17::run,
        #[cfg(feature = "data")]
        "C18" => c18::run,
        #[cfg(feature = "data")]
        "C19" => c19::run,
        _ => return None,
    })
}


/// Decode `bytes` (followed by some trailing bytes, so that a decoder that starts over has
/// something to read) through a reader that fails once, transiently, inside the message.
/// Giving up is fine (`Ok(None)`), resuming correctly is fine (`Ok(Some(value))`, to be compared
/// with the clean decode by the caller); a panic is reported as `Err`.
pub fn decode_through_flaky_reader<T, E>(
    bytes: &[u8],
    selector: u64,
    decode: impl FnOnce(&mut crate::mon::FlakyReader<std::io::Cursor<Vec<u8>>>) -> Result<T, E>,
) -> Result<Option<T>, String> {
    if bytes.len() < 2 {
        return Ok(None);
    }
    let mut stream = bytes.to_vec();
    // what follows the message in a stream: more of the same
    stream.extend_from_slice(&bytes[..bytes.len().min(256)]);
    let fail_at = 1 + (crate::rng::mix(selector, 0xf1a) % (bytes.len() as u64 - 1));
    let mut rd = crate::mon::FlakyReader::new(std::io::Cursor::new(stream), fail_at, selector);
    match crate::mon::catch(|| decode(&mut rd)) {
        Err(p) => Err(format!("{} {}", p.signature(), p.message)),
        Ok(Err(_)) => Ok(None),
        Ok(Ok(v)) => Ok(Some(v)),
    }
}
