//! One module per property: workload + oracle + evidence.

use crate::ev::Ctx;

pub mod c02;
pub mod c03;
pub mod c08;
pub mod cmp31;
pub mod c09;
pub mod c10;

pub type Runner = fn(&mut Ctx);

pub fn lookup(prop: &str) -> Option<Runner> {
    Some(match prop {
        "C02" => c02::run,
        "C03" => c03::run,
        "C08" => c08::run,
        "C09" => c09::run,
        "C10" => c10::run,
        _ => return None,
    })
}
