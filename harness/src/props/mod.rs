//! One module per property: workload + oracle + evidence.

use crate::ev::Ctx;

pub mod c08;

pub type Runner = fn(&mut Ctx);

pub fn lookup(prop: &str) -> Option<Runner> {
    Some(match prop {
        "C08" => c08::run,
        _ => return None,
    })
}
