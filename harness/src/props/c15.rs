//! C15 — Latest-volume discovery finds the newest of all 999 volume directories.
//!
//! (a) the rotated-array search, exhaustively, in memory (hook: verif_hooks::search);
//! (b) get_latest_volume against the loopback S3 simulator (hook: endpoint override).

use crate::ev::{par_cases, Ctx, Obs};
use crate::mon;
use crate::rng::{mix, Rng};
use crate::s3sim::{self, Obj, Req, Resp, Scope};
use nexrad_data::aws::realtime::{get_latest_volume, verif_hooks};
use serde_json::json;
use std::cell::RefCell;
use std::future::Future;
use std::pin::pin;
use std::sync::{Arc, Mutex};
use std::task::{Context, Poll, RawWaker, RawWakerVTable, Waker};

fn noop_waker() -> Waker {
    fn clone(_: *const ()) -> RawWaker {
        RawWaker::new(std::ptr::null(), &VTABLE)
    }
    fn noop(_: *const ()) {}
    static VTABLE: RawWakerVTable = RawWakerVTable::new(clone, noop, noop, noop);
    // SAFETY: the vtable functions never dereference the data pointer.
    unsafe { Waker::from_raw(RawWaker::new(std::ptr::null(), &VTABLE)) }
}

/// Drive a future whose awaits are all immediately ready.
fn block_on_ready<F: Future>(f: F) -> Option<F::Output> {
    let waker = noop_waker();
    let mut cx = Context::from_waker(&waker);
    let mut f = pin!(f);
    for _ in 0..4 {
        if let Poll::Ready(v) = f.as_mut().poll(&mut cx) {
            return Some(v);
        }
    }
    None
}

pub fn call_bound(n: usize) -> usize {
    let log = (usize::BITS - (n + 1).leading_zeros()) as usize; // ceil(log2(n+1)) upper bound
    n + 3 * log + 4
}

/// Value of element `i` for the shape (n, newest index k, populated count p).
#[inline]
fn value_at(n: usize, k: usize, p: usize, i: usize, gaps: Option<&[i64]>) -> Option<i64> {
    // distance going backwards from the newest
    let j = (k + n - i) % n;
    if j < p {
        Some(match gaps {
            None => 1_000_000 - j as i64,
            Some(g) => 1_000_000_000 - g[j],
        })
    } else {
        None
    }
}

fn run_search(n: usize, k: usize, p: usize, gaps: Option<&[i64]>) -> (Result<Option<usize>, String>, usize, Option<usize>) {
    let calls = RefCell::new(0usize);
    let bad_index = RefCell::new(None);
    let r = mon::catch(|| {
        block_on_ready(verif_hooks::search(n, i64::MAX, |i| {
            *calls.borrow_mut() += 1;
            if i >= n {
                *bad_index.borrow_mut() = Some(i);
            }
            let v = if i < n { value_at(n, k, p, i, gaps) } else { None };
            async move { Ok(v) }
        }))
    });
    let res = match r {
        Err(p) => Err(p.signature()),
        Ok(None) => Err("search future did not complete".to_string()),
        Ok(Some(Err(e))) => Err(format!("error {e:?}")),
        Ok(Some(Ok(v))) => Ok(v),
    };
    let c = *calls.borrow();
    let b = *bad_index.borrow();
    (res, c, b)
}

fn check_shape(obs: &mut Obs, n: usize, k: usize, p: usize, gaps: Option<&[i64]>) {
    obs.case(mix(mix(150, n as u64), mix(k as u64, p as u64 * 2 + gaps.is_some() as u64)));
    let (res, calls, bad) = run_search(n, k, p, gaps);
    let want = if p == 0 { None } else { Some(k) };
    let replay = json!({"part": "search", "n": n, "newest_index": k, "populated": p, "nonuniform_gaps": gaps.is_some()});
    match res {
        Err(e) => obs.violation(format!("search {}", e), format!("n={} newest={} populated={}", n, k, p), replay),
        Ok(got) => {
            if got != want {
                // classify by the structural reason a stale directory can be returned
                let sig = if n == 999 || n <= 64 {
                    "search returns a directory that is not the newest"
                } else {
                    "search returns a directory that is not the newest (other size)"
                };
                obs.violation(sig, format!("n={} newest index {} populated {}: expected {:?}, observed {:?}", n, k, p, want, got), replay);
            } else {
                obs.count("shapes_where_newest_found", 1);
            }
            if calls > call_bound(n) {
                obs.violation(
                    "search exceeds the directory count by more than a logarithmic term",
                    format!("n={} newest={} populated={}: {} probes, bound {}", n, k, p, calls, call_bound(n)),
                    json!({"part": "search", "n": n, "newest_index": k, "populated": p}),
                );
            }
            obs.max(&format!("probe_calls_minus_n_at_n{}", if n == 999 { "999".to_string() } else { "_le_64".to_string() }), calls.saturating_sub(n) as u64);
            if let Some(b) = bad {
                obs.violation("search probes an index outside 0..n", format!("n={} index {}", n, b), json!({"n": n, "index": b}));
            }
        }
    }
}

// ---- (b) production entry point against the simulator ------------------------------------------------------

pub struct RotBucket {
    pub site: String,
    /// volume (1..=999) -> objects in that directory (sorted by key)
    pub vols: std::collections::BTreeMap<usize, Vec<Obj>>,
    pub log: Vec<(String, u16)>,
    /// answer the n-th listing request (0-based) with a one-off 500, as S3 occasionally does
    pub fail_at: Option<usize>,
    /// answer the n-th listing request (0-based) with a reply that stalls half-way through its
    /// body, and tell the caller (who then gives the discovery up) that it has been reached
    pub stall_at: Option<(usize, Arc<tokio::sync::Notify>)>,
}

impl Scope for RotBucket {
    fn handle(&mut self, req: &Req) -> Resp {
        if let Some((at, note)) = &self.stall_at {
            if req.is_list() && *at == self.log.len() {
                let prefix = req.q("prefix").unwrap_or("").to_string();
                let max_keys = req.q("max-keys").and_then(|m| m.parse::<usize>().ok());
                let mut all: Vec<Obj> = self.vols.values().flatten().cloned().collect();
                all.sort_by(|a, b| a.key.as_bytes().cmp(b.key.as_bytes()));
                let (sel, truncated, limit) = s3sim::select(&all, &prefix, max_keys);
                let xml = s3sim::list_xml(&req.bucket, &prefix, &sel, truncated, limit, false).into_bytes();
                self.log.push((req.raw.clone(), 997));
                note.notify_one();
                let keep = xml.len() / 2;
                return Resp::stalled(xml[..keep].to_vec(), xml.len() - keep);
            }
        }
        let faulted = req.is_list() && self.fail_at == Some(self.log.len());
        let resp = if faulted && self.log.len() % 3 != 2 {
            // a server error, or a reply that is not HTTP at all (a transport failure) ...
            if self.log.len() % 3 == 0 { Resp::status(500) } else { Resp::broken_transport() }
        } else if req.is_list() {
            let prefix = req.q("prefix").unwrap_or("").to_string();
            let max_keys = req.q("max-keys").and_then(|m| m.parse::<usize>().ok());
            // S3 semantics: `prefix` is a plain string prefix over the whole bucket in key order
            // ("SITE/6" also matches "SITE/60/..."), never a directory lookup
            let mut all: Vec<Obj> = self.vols.values().flatten().cloned().collect();
            all.sort_by(|a, b| a.key.as_bytes().cmp(b.key.as_bytes()));
            let (sel, truncated, limit) = s3sim::select(&all, &prefix, max_keys);
            let xml = s3sim::list_xml(&req.bucket, &prefix, &sel, truncated, limit, req.n % 2 == 0);
            if faulted {
                // ... or the right listing, cut off ten bytes before its end
                Resp::cut_short(xml.into_bytes(), 10)
            } else {
                Resp::xml(xml)
            }
        } else {
            Resp::status(404)
        };
        self.log.push((req.raw.clone(), resp.status));
        resp
    }
}


/// Directory contents of a rotating bucket whose newest populated directory is `newest` (1..=999)
/// and whose `p` populated directories form one contiguous run ending there.
fn build_vols(site: &str, newest: usize, p: usize, t0: i64, spacing: i64, rng: &mut Rng) -> std::collections::BTreeMap<usize, Vec<Obj>> {
    let mut vols = std::collections::BTreeMap::new();
    let wandering_clock = rng.chance(1, 4);
    for j in 0..p {
        let v = (newest + 999 - 1 - j) % 999 + 1; // going backwards from the newest, 1..=999
        let when = t0 - (j as i64) * spacing - if spacing >= 300_000 { rng.below(200_000) as i64 } else { 0 };
        // the time in a chunk's *name* is the radar's clock when the volume began; it is the upload
        // time (LastModified) that orders the directories.  In a quarter of the buckets the radar
        // clock wanders (set back or forward by up to two hours from one volume to the next).
        let radar_clock = if wandering_clock { when + (crate::rng::mix(j as u64, t0 as u64) % 14_400_000) as i64 - 7_200_000 } else { when };
        let c = crate::cal::civil_from_epoch_ms(radar_clock);
        let name = format!("{:04}{:02}{:02}-{:02}{:02}{:02}-001-S", c.year, c.month, c.day, c.hour, c.minute, c.second);
        let mut objs = vec![Obj { key: format!("{}/{}/{}", site, v, name), last_modified: s3sim::rfc3339(when, spacing < 1_000 || j % 2 == 0), size: "1234".into() }];
        // later chunks of the same volume (must not be the one consulted: max-keys=1 returns the first)
        if j % 3 == 0 {
            objs.push(Obj { key: format!("{}/{}/{}", site, v, name.replace("-001-S", "-002-I")), last_modified: s3sim::rfc3339(when + 5_000_000_000, false), size: "99".into() });
        }
        vols.insert(v, objs);
    }
    vols
}

fn check_bucket(obs: &mut Obs, newest: usize, p: usize, rng: &mut Rng, label: &str) {
    let sim = s3sim::global();
    let site = s3sim::fresh_site();
    // upload times: mostly historical, but a client clock may run behind the bucket's: some
    // buckets are stamped ahead of this machine's wall clock (minutes, hours, decades)
    let now_ms = chrono::Utc::now().timestamp_millis();
    let t0: i64 = match rng.below(7) {
        6 => now_ms - rng.below(170_000) as i64, // uploading right now: the newest directories are seconds old
        0 => now_ms + 120_000,
        1 => now_ms + 3_600_000 + rng.below(1_000_000) as i64,
        2 if rng.chance(1, 3) => 13_569_465_600_000 + rng.below(1_000_000_000) as i64, // year 2400 (beyond i64 nanoseconds)
        2 => 4_102_444_800_000 + rng.below(1_000_000_000) as i64, // year 2100
        _ => 1_722_000_000_000 + rng.below(1_000_000_000) as i64,
    };
    if t0 > now_ms {
        obs.count("buckets_stamped_ahead_of_the_wall_clock", 1);
    }
    // spacing between consecutive directories' first chunks: minutes as in production, or down to
    // a millisecond (upload times are only required to be distinct)
    let spacing: i64 = *rng.pick(&[300_000i64, 300_000, 45_000, 1_000, 400, 1]);
    if spacing < 1_000 {
        obs.count("buckets_with_sub_second_spacing", 1);
    }
    let vols = build_vols(&site, newest, p, t0, spacing, rng);
    // one discovery in six meets a one-off server error on one of its first listing requests; the
    // statement says nothing about the directory reported then (an error is fine too), but if an
    // answer is returned its call count must still be the requests really issued
    let fail_at: Option<usize> = if rng.chance(1, 6) { Some(rng.usize_below(14)) } else { None };
    let scope = Arc::new(Mutex::new(RotBucket { site: site.clone(), vols, log: Vec::new(), fail_at, stall_at: None }));
    sim.register(&site, scope.clone());
    obs.case(mix(mix(151, newest as u64), p as u64));
    let replay = json!({"part": "get_latest_volume", "newest_volume": newest, "populated": p, "label": label});
    // Two discoveries of the same site in flight at once on one runtime (one bucket in six): each
    // must name the newest directory, and the counts they report must add up to the listing
    // requests the simulator really received for that site.
    if fail_at.is_none() && rng.chance(1, 6) {
        let r = mon::catch(|| s3sim::block_on(false, async { tokio::join!(get_latest_volume(&site), get_latest_volume(&site)) }));
        sim.unregister(&site);
        let lists = scope.lock().map(|s| s.log.len()).unwrap_or(0);
        let want = if p == 0 { None } else { Some(newest) };
        match r {
            Err(pn) => obs.violation(format!("get_latest_volume {}", pn.signature()), pn.message, replay),
            Ok((Ok(a), Ok(b))) => {
                let (ga, gb) = (a.volume.map(|v| v.as_number()), b.volume.map(|v| v.as_number()));
                if ga != want || gb != want {
                    obs.violation(
                        "latest volume is not the newest populated directory when two discoveries of the site are in flight at once",
                        format!("newest {} populated {}: expected {:?}, observed {:?} and {:?}", newest, p, want, ga, gb),
                        replay.clone(),
                    );
                }
                if a.calls + b.calls != lists {
                    obs.violation(
                        "reported call counts of two discoveries in flight at once do not add up to the listing requests issued",
                        format!("reported {} + {}, simulator logged {}", a.calls, b.calls, lists),
                        replay.clone(),
                    );
                }
                if a.calls > call_bound(999) || b.calls > call_bound(999) {
                    obs.violation("listing requests exceed the directory count by more than a logarithmic term", format!("{} and {} requests, bound {}", a.calls, b.calls, call_bound(999)), replay);
                }
                obs.count("pairs_of_discoveries_in_flight_at_once_on_one_site", 1);
            }
            Ok((ra, rb)) => {
                let text = format!("{:?} / {:?}", ra.as_ref().err(), rb.as_ref().err());
                if text.contains("onnect") {
                    obs.skipped_environment(format!("loopback connect to the simulator failed: {text}"));
                } else {
                    obs.violation("get_latest_volume fails against a well-formed bucket", text, replay);
                }
            }
        }
        return;
    }
    let r = mon::catch(|| s3sim::block_on(false, get_latest_volume(&site)));
    sim.unregister(&site);
    let log = scope.lock().map(|s| s.log.clone()).unwrap_or_default();
    match r {
        Err(pn) => obs.violation(format!("get_latest_volume {}", pn.signature()), pn.message, replay),
        Ok(Err(e)) => {
            // a loopback connection that could not be established is the harness's environment
            // (ephemeral ports), not the code under test: inconclusive, never a verdict
            if let nexrad_data::result::Error::AWS(nexrad_data::result::aws::AWSError::S3ListObjectsError(re)) = &e {
                if re.is_connect() {
                    obs.skipped_environment(format!("loopback connect to the simulator failed: {re}"));
                    return;
                }
            }
            if fail_at.map(|k| k < log.len()).unwrap_or(false) && matches!(&e, nexrad_data::result::Error::AWS(nexrad_data::result::aws::AWSError::S3ListObjectsError(_))) {
                obs.count("discoveries_ended_by_an_injected_listing_fault", 1);
                return;
            }
            obs.violation("get_latest_volume fails against a well-formed bucket", format!("{e:?}"), replay)
        }
        Ok(Ok(res)) => {
            let faults = usize::from(fail_at.map(|k| k < log.len()).unwrap_or(false));
            if faults > 0 {
                obs.count("discoveries_that_survived_an_injected_listing_fault", 1);
            }
            let want = if p == 0 { None } else { Some(newest) };
            let got = res.volume.map(|v| v.as_number());
            if faults > 0 {
                // The statement is about bucket states, not about a server that answers one request
                // with an error: which directory is reported then is recorded, not judged (the
                // library reads a non-2xx listing response as an empty directory).  The call count
                // below is judged all the same: it speaks of the requests really issued.
                obs.count(if got == want { "faulted_discoveries_with_the_right_directory" } else { "faulted_discoveries_with_another_directory" }, 1);
            } else if got != want {
                let sig = if want == Some(999) {
                    "latest volume missed when the newest directory is 999"
                } else {
                    "latest volume is not the newest populated directory"
                };
                obs.violation(sig, format!("newest {} populated {}: expected {:?}, observed {:?}", newest, p, want, got), replay.clone());
            } else {
                obs.count("buckets_where_newest_found", 1);
            }
            let lists = log.len();
            if res.calls != lists {
                obs.violation(
                    "reported call count differs from the listing requests issued",
                    format!("reported {}, simulator logged {}", res.calls, lists),
                    replay.clone(),
                );
            }
            if lists > call_bound(999) + faults {
                obs.violation(
                    "listing requests exceed the directory count by more than a logarithmic term",
                    format!("{} requests, bound {}", lists, call_bound(999)),
                    replay.clone(),
                );
            }
            obs.max("list_requests_per_discovery", lists as u64);
            obs.count("list_requests_logged", lists as u64);
            // Request shape is recorded, not judged: the statement speaks of the directory found and
            // of the number of listing requests, not of their parameters.  The simulator implements
            // S3's plain string-prefix and max-keys semantics, so a request that asks for the wrong
            // thing shows up as a wrong directory or a wrong count above.
            let canonical = log.iter().all(|(raw, _)| {
                let rq = s3sim::parse_url(raw, 0);
                let prefix = rq.q("prefix").unwrap_or("");
                let parts: Vec<&str> = prefix.split('/').collect();
                parts.len() == 3
                    && parts[0] == site
                    && parts[2].is_empty()
                    && parts[1].parse::<usize>().map(|v| (1..=999).contains(&v)).unwrap_or(false)
                    && rq.q("max-keys") == Some("1")
                    && rq.q("list-type") == Some("2")
                    && rq.bucket == s3sim::REALTIME_BUCKET
            });
            obs.count(if canonical { "discoveries_with_canonical_list_requests" } else { "discoveries_with_other_list_request_shapes" }, 1);
            if obs.want_sample() {
                obs.sample(json!({"part": "get_latest_volume", "newest_volume": newest, "populated": p, "reported_calls": res.calls,
                    "first_requests": log.iter().take(3).map(|l| l.0.clone()).collect::<Vec<_>>()}));
            }
        }
    }
}

/// One site asked repeatedly while its bucket moves on (a client that restarts polling, or asks
/// again later): every answer must be right for the bucket as it is *then*.  State carried from
/// an earlier discovery must not leak into a later one.
fn check_history(obs: &mut Obs, rng: &mut Rng, index: u64) {
    let sim = s3sim::global();
    let site = s3sim::fresh_site();
    let steps = rng.urange(3, 6);
    // a walk of (newest, populated): forwards by small and large strides, through 999 and the wrap
    let mut states: Vec<(usize, usize)> = Vec::new();
    let mut newest = match index % 4 {
        0 => 999,
        1 => rng.urange(990, 998),
        _ => rng.urange(1, 999),
    };
    let mut p = *rng.pick(&[999usize, 999, 40, 1, 500]);
    for _ in 0..steps {
        states.push((newest, p));
        let stride = *rng.pick(&[1usize, 1, 2, 7, 55, 400]);
        newest = (newest - 1 + stride) % 999 + 1;
        p = (p + stride).min(999);
        if rng.chance(1, 8) {
            p = 0; // the bucket was emptied (and is asked again)
        }
    }
    let scope = Arc::new(Mutex::new(RotBucket { site: site.clone(), vols: Default::default(), log: Vec::new(), fail_at: None, stall_at: None }));
    sim.register(&site, scope.clone());
    let mut t0: i64 = 1_722_000_000_000 + rng.below(1_000_000_000) as i64;
    let mut after_given_up;
    for (k, (newest, p)) in states.iter().copied().enumerate() {
        // Before half of the later steps the caller gives a discovery up: it is started against the
        // bucket as it stood, the simulator lets a few listings through and stalls the next one
        // half-way through its body, and the future is dropped at that point.  Then the bucket
        // moves on and the site is asked again - an ordinary discovery, judged as always (only the
        // request count is not compared on that step: a request of the abandoned discovery may
        // still reach the simulator afterwards).
        after_given_up = false;
        if k >= 1 && rng.chance(1, 2) {
            let note = Arc::new(tokio::sync::Notify::new());
            let at = rng.usize_below(24) + 1;
            if let Ok(mut g) = scope.lock() {
                g.log.clear();
                g.stall_at = Some((at, note.clone()));
            }
            let gave_up = mon::catch(|| {
                s3sim::block_on(false, async {
                    tokio::select! {
                        _ = get_latest_volume(&site) => false,
                        _ = note.notified() => true,
                        _ = tokio::time::sleep(std::time::Duration::from_secs(5)) => true,
                    }
                })
            });
            if let Ok(mut g) = scope.lock() {
                g.stall_at = None;
            }
            match gave_up {
                Ok(true) => {
                    obs.count("discoveries_given_up_midway_before_the_site_is_asked_again", 1);
                    after_given_up = true;
                }
                Ok(false) => obs.count("discoveries_meant_to_be_given_up_that_completed_first", 1),
                Err(pn) => {
                    obs.violation(format!("get_latest_volume {}", pn.signature()), pn.message, json!({"part": "get_latest_volume history", "scenario_index": index, "step": k, "given_up": true}));
                    break;
                }
            }
        }
        t0 += 400 * 300_000;
        let vols = build_vols(&site, newest, p, t0, 300_000, rng);
        if let Ok(mut g) = scope.lock() {
            g.vols = vols;
            g.log.clear();
        }
        obs.case(mix(mix(152, newest as u64), mix(p as u64, k as u64)));
        let replay = json!({"part": "get_latest_volume history", "scenario_index": index, "step": k, "states_so_far": states[..=k].to_vec()});
        let r = mon::catch(|| s3sim::block_on(false, get_latest_volume(&site)));
        let log_len = scope.lock().map(|g| g.log.len()).unwrap_or(0);
        match r {
            Err(pn) => {
                obs.violation(format!("get_latest_volume {}", pn.signature()), pn.message, replay);
                break;
            }
            Ok(Err(e)) => {
                if let nexrad_data::result::Error::AWS(nexrad_data::result::aws::AWSError::S3ListObjectsError(re)) = &e {
                    if re.is_connect() {
                        obs.skipped_environment(format!("loopback connect to the simulator failed: {re}"));
                        break;
                    }
                }
                obs.violation("get_latest_volume fails against a well-formed bucket", format!("{e:?}"), replay);
                break;
            }
            Ok(Ok(res)) => {
                let want = if p == 0 { None } else { Some(newest) };
                let got = res.volume.map(|v| v.as_number());
                if got != want {
                    obs.violation(
                        "latest volume is not the newest populated directory when the same site is asked again later",
                        format!("step {} of {:?}: expected {:?}, observed {:?}", k, &states[..=k], want, got),
                        replay,
                    );
                    break;
                }
                if after_given_up {
                    obs.count("discoveries_right_after_one_that_was_given_up", 1);
                } else if res.calls != log_len {
                    obs.violation(
                        "reported call count differs from the listing requests issued",
                        format!("step {}: reported {}, simulator logged {}", k, res.calls, log_len),
                        replay,
                    );
                    break;
                }
                if !after_given_up && log_len > call_bound(999) {
                    obs.violation(
                        "listing requests exceed the directory count by more than a logarithmic term",
                        format!("step {}: {} requests, bound {}", k, log_len, call_bound(999)),
                        replay,
                    );
                    break;
                }
                obs.count("repeated_discoveries_on_one_site_checked", 1);
            }
        }
    }
    sim.unregister(&site);
}

pub fn run(ctx: &mut Ctx) {
    ctx.rule = "(a) one case per bucket shape (size n, newest index k, populated count p; distinct upload times, newest largest) run through the real rotated search with a counting probe closure; (b) one case per simulated 999-directory bucket run through get_latest_volume over HTTP, plus sites asked 3..6 times while their bucket moves on (through 999 and the wrap, emptied in between); \
distinct = distinct (n, k, p); oracle = result is the newest populated directory (None when empty), probe/list count <= n + 3*ceil(log2(n+1)) + 4, probed indices < n, reported calls == LIST requests logged (request parameters are recorded, not judged)"
        .into();
    ctx.exhaustive = Some("(a) all n^2+1 shapes for every n in 1..=64 and all 998,002 shapes at n = 999; (b) the 36 corner shapes newest in {1,2,500,997,998,999} x populated in {0,1,2,55,998,999}".into());
    ctx.assumptions = vec!["populated directories form one contiguous run ending at the newest (rotation order), upload times distinct".into()];
    ctx.floor_evaluations = 1_000_000;
    let seed = ctx.seed;

    // ---- (a) small sizes, all shapes ----------------------------------------------------------------------
    {
        let mut obs = Obs::new();
        for n in 1..=64usize {
            check_shape(&mut obs, n, 0, 0, None);
            for k in 0..n {
                for p in 1..=n {
                    check_shape(&mut obs, n, k, p, None);
                }
            }
        }
        ctx.obs.merge(obs);
    }
    // ---- (a) production size, all shapes (parallel over k) ------------------------------------------------
    par_cases(ctx, 999, |k, obs| {
        let k = k as usize;
        if k == 0 {
            check_shape(obs, 999, 0, 0, None);
        }
        for p in 1..=999usize {
            check_shape(obs, 999, k, p, None);
        }
    });
    // ---- (a) order-type invariance: non-uniform gaps --------------------------------------------------------
    let n_gap = ctx.tier.pick(3_000u64, 600_000u64);
    par_cases(ctx, n_gap, |i, obs| {
        let mut rng = Rng::derive(seed, 15, i);
        let n = *rng.pick(&[999usize, 999, 64, 17, 2, 3, 100, 998, 1000]);
        let k = rng.usize_below(n);
        let p = match rng.below(4) {
            0 => n,
            1 => 1,
            _ => rng.urange(1, n),
        };
        let mut acc = 0i64;
        let gaps: Vec<i64> = (0..p)
            .map(|_| {
                let g = acc;
                acc += 1 + rng.below(100_000) as i64;
                g
            })
            .collect();
        check_shape(obs, n, k, p, Some(&gaps));
    });

    // ---- (b) get_latest_volume over the simulator ---------------------------------------------------------------
    let corners_newest = [1usize, 2, 500, 997, 998, 999];
    let corners_p = [0usize, 1, 2, 55, 998, 999];
    let mut shapes: Vec<(usize, usize, &str)> = Vec::new();
    for &nw in &corners_newest {
        for &p in &corners_p {
            shapes.push((nw, p, "corner"));
        }
    }
    let mut rng = Rng::derive(seed, 15, 1 << 40);
    for _ in 0..ctx.tier.pick(120, 8_000) {
        let nw = rng.urange(1, 999);
        let p = match rng.below(5) {
            0 => rng.urange(1, 10),
            1 => rng.urange(990, 999),
            _ => rng.urange(1, 999),
        };
        shapes.push((nw, p, "random"));
    }
    let shapes_ref = &shapes;
    par_cases(ctx, shapes.len() as u64, |i, obs| {
        let mut rng = Rng::derive(seed, 15, (1 << 41) + i);
        let (nw, p, label) = shapes_ref[i as usize];
        check_bucket(obs, nw, p, &mut rng, label);
    });
    // ---- (b') the same site asked again while its bucket moves on ------------------------------------------
    let n_hist = ctx.tier.pick(24u64, 1_500u64);
    par_cases(ctx, n_hist, |i, obs| {
        let mut rng = Rng::derive(seed, 15, (1 << 42) + i);
        check_history(obs, &mut rng, i);
    });
    ctx.obs.sample(json!({"part": "search", "n": 2, "newest_index": 0, "populated": 2, "values": [1000000, 999999], "expected": 0}));
}
