//! C06 — Volume, record and chunk handling is total on arbitrary bytes.

use super::c05::gen_container;
use crate::enc;
use crate::ev::{hex, par_cases, Ctx, Obs};
use crate::mon;
use crate::rng::{fnv, mix, Rng};
use crate::volgen::{gen_volume, ElevPattern, VolParams};
use nexrad_data::aws::realtime::Chunk;
use nexrad_data::volume::{split_compressed_records, File, Record};
use serde_json::json;

/// CPU seconds one public call may consume on inputs of at most 64 KiB before it is reported as
/// non-terminating (the unchanged code needs milliseconds; see `max_case_cpu_ms` in the evidence).
pub const CPU_BUDGET_S: u64 = 20;

fn call<T>(obs: &mut Obs, op: &str, family: &str, input: &[u8], f: impl FnOnce() -> T) -> Option<T> {
    obs.count("public_calls", 1);
    mon::case_begin(op, family, input);
    let r = mon::catch(f);
    mon::case_end();
    match r {
        Ok(v) => Some(v),
        Err(p) => {
            obs.violation(
                format!("{} {}", op, p.signature()),
                format!("{} at {}:{} [{} input of {} bytes]", p.message, p.file, p.line, family, input.len()),
                json!({"op": op, "family": family, "input_len": input.len(), "input_hex": hex(&input[..input.len().min(32_768)])}),
            );
            None
        }
    }
}

fn exercise_record(obs: &mut Obs, r: &Record, family: &str, input: &[u8], depth: u32) {
    let _ = call(obs, "Record::data", family, input, || r.data().len());
    let compressed = call(obs, "Record::compressed", family, input, || r.compressed());
    let _ = call(obs, "Record::fmt", family, input, || format!("{:?}", r));
    // the pretty form is formatting for debugging too (and what dbg!() prints)
    let _ = call(obs, "Record::fmt", family, input, || format!("{:#?}", r).len());
    let d = call(obs, "Record::decompress", family, input, || r.decompress());
    let _ = call(obs, "Record::messages", family, input, || r.messages().map(|m| m.len()));
    if let Some(Ok(dec)) = d {
        obs.count("records_that_decompressed", 1);
        if depth == 0 {
            exercise_record(obs, &dec, family, input, 1);
        }
    } else if compressed == Some(true) {
        obs.count("corrupt_bzip2_reported_as_error", 1);
    }
}

/// Run every public operation of the statement on the bytes.
pub fn run_input(obs: &mut Obs, input: &[u8], family: &str) {
    if input.is_empty() {
        obs.case_trivial();
    } else {
        obs.case(fnv(input));
    }
    // as a volume file
    let file = File::new(input.to_vec());
    let _ = call(obs, "File::data", family, input, || file.data().len());
    let _ = call(obs, "File::header", family, input, || {
        file.header().map(|h| {
            (
                h.tape_filename(),
                h.extension_number(),
                h.date_time(),
                h.icao_of_radar(),
                format!("{:?}", h),
            )
        })
    });
    let recs = call(obs, "File::records", family, input, || file.records());
    if let Some(recs) = &recs {
        obs.max("records_listed", recs.len() as u64);
        for r in recs.iter().take(6) {
            exercise_record(obs, r, family, input, 0);
        }
    }
    let _ = call(obs, "File::scan", family, input, || file.scan().map(|s| s.sweeps().len()));
    let _ = call(obs, "File::fmt", family, input, || format!("{:?}", file));
    let _ = call(obs, "File::fmt", family, input, || format!("{:#?}", file).len());

    // as an LDM record (owned and borrowed)
    let owned = Record::new(input.to_vec());
    exercise_record(obs, &owned, family, input, 0);
    let borrowed = Record::from_slice(input);
    exercise_record(obs, &borrowed, family, input, 0);

    // record splitter on the raw bytes
    if let Some(v) = call(obs, "split_compressed_records", family, input, || split_compressed_records(input)) {
        for r in v.iter().take(3) {
            let _ = call(obs, "Record::fmt", family, input, || format!("{:?}", r));
        }
    }

    // as a real-time chunk
    if let Some(Ok(chunk)) = call(obs, "Chunk::new", family, input, || Chunk::new(input.to_vec())) {
        let _ = call(obs, "Chunk::data", family, input, || chunk.data().len());
        let _ = call(obs, "Chunk::fmt", family, input, || format!("{:?}", chunk));
        let _ = call(obs, "Chunk::fmt", family, input, || format!("{:#?}", chunk).len());
        match &chunk {
            Chunk::Start(f) => {
                let _ = call(obs, "File::records", family, input, || f.records().len());
            }
            Chunk::IntermediateOrEnd(r) => exercise_record(obs, r, family, input, 0),
        }
        obs.count("chunks_classified", 1);
    }
}

fn small_family(len: usize, fam: usize, rng: &mut Rng) -> (Vec<u8>, &'static str) {
    let mut b = vec![0u8; len];
    let name = match fam {
        0 => "zeros",
        1 => {
            b.iter_mut().for_each(|x| *x = 0xFF);
            "0xFF"
        }
        2 => {
            for (i, x) in b.iter_mut().enumerate() {
                *x = *b"AR2V0006.001".get(i).unwrap_or(&0);
            }
            "AR2V0006-prefixed"
        }
        3 => {
            if len >= 6 {
                b[4] = b'B';
                b[5] = b'Z';
            }
            "BZ-at-4..6"
        }
        4 | 5 | 6 | 7 | 8 | 9 => {
            let n = len as i64;
            let size: i32 = match fam {
                4 => (n - 4) as i32,
                5 => n as i32,
                6 => (n + 1) as i32,
                7 => 0,
                8 => -1,
                _ => i32::MAX,
            };
            if len >= 4 {
                b[0..4].copy_from_slice(&size.to_be_bytes());
            }
            // also at offset 24 (first record of a file)
            if len >= 28 {
                b[24..28].copy_from_slice(&size.to_be_bytes());
            }
            "size-prefix-extremes"
        }
        12 => {
            // a bzip2 magic right at the start (a record whose size prefix was stripped)
            for (i, x) in b.iter_mut().enumerate() {
                *x = *b"BZh91AY&SY".get(i).unwrap_or(&0);
            }
            "BZh-at-0"
        }
        13 => {
            // 24-byte header followed directly by a bzip2 magic
            for (i, x) in b.iter_mut().enumerate() {
                *x = *b"AR2V0006.001\0\0\0\0\0\0\0\0KDMXBZh91AY&SY".get(i).unwrap_or(&0);
            }
            "AR2-header+BZh-without-prefix"
        }
        10 => {
            // AR2 header followed by BZ
            for (i, x) in b.iter_mut().enumerate() {
                *x = *b"AR2V0006.001\0\0\0\0\0\0\0\0KDMX\0\0\0\x04BZh9".get(i).unwrap_or(&0);
            }
            "AR2-header+BZ"
        }
        14 => {
            // header text fields in multi-byte UTF-8 (character boundaries anywhere in 0..24)
            b = enc::utf8_fill(rng, len);
            if len >= 20 {
                b[12..20].copy_from_slice(&[0, 0, 0x4e, 0x20, 0, 0, 0, 1]);
            }
            "utf8-text-header"
        }
        _ => {
            b = rng.bytes(len);
            "random"
        }
    };
    (b, name)
}

pub fn run(ctx: &mut Ctx) {
    // --replay with a recorded input: run exactly that byte string through every entry point
    if let Some(hexs) = ctx.replay.as_ref().and_then(|r| r.get("case")).and_then(|c| c.get("input_hex")).and_then(|h| h.as_str()) {
        let full = ctx.replay.as_ref().and_then(|r| r.get("case")).and_then(|c| c.get("input_len")).and_then(|l| l.as_u64()).unwrap_or(0) as usize;
        let input = crate::ev::unhex(hexs);
        if input.len() == full {
            #[allow(unused_mut, unused_variables)]
            let mut rng = Rng::derive(ctx.seed, 0, 0);
            println!("replay: running the recorded {}-byte input alone", input.len());
            run_input(&mut ctx.obs, &input, "replay");
            return;
        }
        println!("replay: recorded input was abbreviated; re-running the whole seeded workload");
    }
    ctx.rule = "a case is one byte string wrapped as File / Record (owned and borrowed) / Chunk and driven through records, header (+accessors), compressed, decompress (and the decompressed record's own calls), messages, scan, split_compressed_records and {:?} of each; \
trivial = empty input; distinct = distinct input contents; families: every length 0..=64 x 15 content families (a second draw of the random one), every truncation point of valid volumes/containers/chunks, corrupted size prefix at every record, 1-16 bit flips in bzip2 bodies, hostile message streams (C04's generators) as raw records and compressed inside volumes, random bytes to 8 KiB; verdict monitors = panic hook and a per-call CPU-time budget of 20 s (thread CPU clock, not wall time) as the termination monitor"
        .into();
    ctx.exhaustive = Some("every length 0..=64 for each of 15 content families; every truncation point of the generated valid files in this run".into());
    ctx.floor_evaluations = 1_000;
    let seed = ctx.seed;
    {
        let (tier, sd) = (ctx.tier, ctx.seed);
        mon::start_cpu_watchdog(CPU_BUDGET_S, move |op, family, input, cpu| {
            crate::ev::report_stuck_and_exit("C06", tier, sd, op, family, input, cpu, CPU_BUDGET_S)
        });
    }

    // ---- every length 0..=64 x families -------------------------------------------------------
    {
        let mut rng = Rng::derive(seed, 6, 0);
        let mut obs = Obs::new();
        for len in 0..=64usize {
            for fam in 0..16usize {
                let (b, name) = small_family(len, fam, &mut rng);
                run_input(&mut obs, &b, name);
                obs.count("boundary_length_inputs", 1);
            }
        }
        ctx.obs.merge(obs);
    }

    // ---- every truncation point of valid files --------------------------------------------------
    let n_files = ctx.tier.pick(6u64, 80u64);
    let mut valid: Vec<(Vec<u8>, &'static str)> = Vec::new();
    {
        let mut rng = Rng::derive(seed, 6, 1);
        for i in 0..n_files {
            match i % 3 {
                0 => {
                    let p = VolParams {
                        pattern: ElevPattern::Increasing,
                        radials_per_run: (1, 3),
                        max_gates: 8,
                        meta_density: 4,
                    };
                    valid.push((gen_volume(&mut rng, &p).build(), "truncated-volume"));
                }
                1 => valid.push((gen_container(&mut rng, 512).build().0, "truncated-container")),
                _ => {
                    let body = enc::bzip2_compress(&rng.bytes(rng.clone().urange(0, 600)), 9);
                    valid.push((enc::ldm_record(&body, rng.chance(1, 2)), "truncated-chunk"));
                }
            }
        }
        for v in valid.iter_mut() {
            v.0.truncate(ctx.tier.pick(6_000, 64 * 1024));
        }
    }
    let valid_ref = &valid;
    let total_cuts: u64 = valid.iter().map(|v| v.0.len() as u64 + 1).sum();
    par_cases(ctx, total_cuts, |i, obs| {
        let mut k = i as usize;
        for (bytes, name) in valid_ref {
            if k <= bytes.len() {
                run_input(obs, &bytes[..k], name);
                obs.count("every_truncation_point_inputs", 1);
                return;
            }
            k -= bytes.len() + 1;
        }
    });

    // ---- the same small valid volume, scanned tens of thousands of times in one process ---------------
    // (a long-lived service converts volumes all day: the 70,000th conversion returns like the first)
    {
        let mut rng = Rng::derive(seed, 6, 99);
        let p = VolParams { pattern: ElevPattern::OneRadial, radials_per_run: (1, 1), max_gates: 2, meta_density: 0 };
        let tiny = gen_volume(&mut rng, &p).build();
        let n: u64 = ctx.tier.pick(70_000, 140_000);
        par_cases(ctx, n, |i, obs| {
            let file = File::new(tiny.clone());
            match call(obs, "File::scan", "tiny-valid-volume-many-times", &tiny, || file.scan().map(|s| s.sweeps().len())) {
                Some(Ok(1)) => obs.count("repeated_scans_of_one_small_volume", 1),
                Some(other) => obs.violation("File::scan of a valid one-radial volume stops succeeding after many scans", format!("scan {}: {:?}", i + 1, other.map_err(|e| format!("{e:?}"))), json!({"scan": i + 1})),
                None => {}
            }
            if i % 4096 == 0 {
                obs.case(fnv(&i.to_le_bytes()));
            } else {
                obs.case_trivial();
            }
        });
    }

    // ---- corrupted prefixes, bit flips, random ---------------------------------------------------
    let total: u64 = ctx.tier.pick(6_000, 1_500_000);
    par_cases(ctx, total, |i, obs| {
        let mut rng = Rng::derive(seed, 6, 100 + i);
        let (input, family): (Vec<u8>, &str) = match rng.below(10) {
            8 => {
                // a record whose bzip2 stream has several blocks and breaks off inside a later one:
                // decompression fails *after* it has produced output (a download cut short)
                let whole = crate::props::poison::multi_block_stream();
                let cut = whole.len() - 1 - rng.usize_below(whole.len() / 3);
                let mut r = (cut as u32).to_be_bytes().to_vec();
                r.extend_from_slice(&whole[..cut]);
                if rng.chance(1, 2) {
                    let mut f = enc::VolHeader::realistic(&mut rng).encode().to_vec();
                    f.extend_from_slice(&r);
                    (f, "bzip2-stream-cut-in-a-later-block-file")
                } else {
                    (r, "bzip2-stream-cut-in-a-later-block-record")
                }
            }
            9 => {
                // more than half a mebibyte: sizes at which an implementation may switch strategy
                let n = *rng.pick(&[524_289usize, 600_000, 1_048_577, 1_500_000]);
                let mut b = if rng.chance(1, 2) { rng.bytes(n) } else { vec![rng.u8(); n] };
                if rng.chance(2, 3) {
                    b[..24].copy_from_slice(&enc::VolHeader::realistic(&mut rng).encode());
                    if rng.chance(1, 2) {
                        let body = (n - 28) as u32;
                        b[24..28].copy_from_slice(&body.to_be_bytes());
                        b[28..32].copy_from_slice(b"BZh9");
                    }
                }
                (b, "large-input")
            }
            7 => {
                // a structurally valid volume whose radials carry undocumented codes (radial
                // status 6..=255, spacing codes, date 0 ...): scan() must still return
                let p = VolParams { pattern: ElevPattern::Increasing, radials_per_run: (1, 3), max_gates: 8, meta_density: 4 };
                let mut spec = gen_volume(&mut rng, &p);
                for it in spec.items.iter_mut() {
                    if let crate::volgen::StreamItem::Radial { msg, .. } = it {
                        msg.hdr.status = rng.u8();
                        msg.hdr.spacing = rng.u8();
                        msg.hdr.comp = rng.u8();
                        msg.hdr.blanking = rng.u8();
                        if rng.chance(1, 4) {
                            msg.hdr.date = *rng.pick(&[0u16, 1, 65_535]);
                        }
                        if rng.chance(1, 4) {
                            msg.hdr.time = *rng.pick(&[86_400_000u32, u32::MAX, 1 << 31]);
                        }
                        // moment blocks that declare a word size no documented product uses (fewer
                        // bits than were written, so the frame stays intact), a zero / non-finite
                        // scale or offset, or a zero range / interval: the block still decodes and
                        // the conversion to the model is what has to stay total
                        for b in msg.blocks.iter_mut() {
                            if let enc::Block::Mom(m) = b {
                                if rng.chance(1, 3) {
                                    let smaller: Vec<u8> = [0u8, 1, 2, 3, 4, 5, 6, 7, 9, 12, 15].iter().copied().filter(|w| *w < m.word).collect();
                                    if !smaller.is_empty() {
                                        m.word = *rng.pick(&smaller);
                                    }
                                }
                                if rng.chance(1, 4) {
                                    m.scale = *rng.pick(&[0.0f32, -0.0, f32::NAN, f32::INFINITY, f32::NEG_INFINITY, f32::MIN_POSITIVE, 1.0e-45, f32::MAX]);
                                }
                                if rng.chance(1, 4) {
                                    m.offset = *rng.pick(&[0.0f32, f32::NAN, f32::INFINITY, f32::NEG_INFINITY, f32::MAX, f32::MIN]);
                                }
                                if rng.chance(1, 4) {
                                    m.range = *rng.pick(&[0u16, 1, 32_768, 65_535]);
                                    m.interval = *rng.pick(&[0u16, 1, 32_768, 65_535]);
                                }
                            }
                        }
                    }
                }
                // ... elevation numbers at the ends of the byte (0, 255) on some radials, and, half the
                // time, a real coverage-pattern message (1..5 cuts) in front of them
                if rng.chance(1, 3) {
                    for it in spec.items.iter_mut() {
                        if let crate::volgen::StreamItem::Radial { msg, .. } = it {
                            if rng.chance(1, 3) {
                                msg.hdr.elev_num = *rng.pick(&[0u8, 0, 255, 26]);
                            }
                        }
                    }
                }
                if rng.chance(1, 2) {
                    let ncuts = rng.urange(1, 5);
                    let vcp = enc::gen_vcp(&mut rng, ncuts);
                    let mh = enc::MsgHeader::realistic(&mut rng, 5);
                    let frame = enc::frame(&mh, &vcp.encode(), 0);
                    spec.items.insert(0, crate::volgen::StreamItem::Meta(crate::props::c03::Item::Fixed { hdr: mh, bytes: frame }));
                    for r in spec.record_starts.iter_mut().skip(1) {
                        *r += 1;
                    }
                }
                (spec.build(), "valid-volume-undocumented-codes")
            }
            5 | 6 => {
                // hostile *message streams* (C04's generators: block count 0/65535, wild
                // pointers, mutated frames ...) reached through the C06 entry points: as a raw
                // record, and bzip2-compressed inside a volume file
                let (stream, _) = super::c04::gen_input(&mut rng);
                let stream = if stream.len() > 200_000 { stream[..200_000].to_vec() } else { stream };
                if rng.chance(1, 2) {
                    (stream, "hostile-message-stream-as-record")
                } else {
                    let mut f = enc::VolHeader::realistic(&mut rng).encode().to_vec();
                    f.extend_from_slice(&enc::ldm_record(&enc::bzip2_compress(&stream, 1), rng.chance(1, 2)));
                    (f, "hostile-message-stream-in-volume")
                }
            }
            0 | 1 => {
                // corrupt the size prefix of one record
                let spec = gen_container(&mut rng, 1024);
                let (mut bytes, recs) = spec.build();
                if !recs.is_empty() {
                    let which = rng.usize_below(recs.len());
                    let off = 24 + recs[..which].iter().map(|r| r.len()).sum::<usize>();
                    let len = recs[which].len() as i64 - 4;
                    let v: i32 = match rng.below(9) {
                        0 => 0,
                        1 => -1,
                        2 => i32::MAX,
                        3 => i32::MIN,
                        4 => (len + 1) as i32,
                        5 => (len - 1).max(0) as i32,
                        6 => (bytes.len() - off) as i32,
                        7 => rng.u32() as i32,
                        _ => (len + rng.below(64) as i64) as i32,
                    };
                    bytes[off..off + 4].copy_from_slice(&v.to_be_bytes());
                }
                (bytes, "corrupted-size-prefix")
            }
            2 | 3 => {
                // bit flips inside bzip2 bodies
                let spec = gen_container(&mut rng, 2048);
                let (mut bytes, _) = spec.build();
                if bytes.len() > 28 {
                    for _ in 0..rng.urange(1, 16) {
                        let p = rng.urange(28, bytes.len() - 1);
                        bytes[p] ^= 1 << rng.below(8);
                    }
                }
                if rng.chance(1, 3) {
                    // as a chunk: drop the volume header
                    (bytes[24..].to_vec(), "bit-flipped-bzip2-chunk")
                } else {
                    (bytes, "bit-flipped-bzip2-file")
                }
            }
            _ => {
                let n = rng.usize_below(8193);
                let mut b = rng.bytes(n);
                if n >= 6 && rng.chance(1, 2) {
                    if rng.chance(1, 2) {
                        b[0..3].copy_from_slice(b"AR2");
                    } else {
                        b[4..6].copy_from_slice(b"BZ");
                    }
                }
                if n >= 30 && rng.chance(1, 3) {
                    b[28] = b'B';
                    b[29] = b'Z';
                    b[30 % n] = b'h';
                }
                (b, "random-bytes")
            }
        };
        obs.count(&format!("family_{}", family), 1);
        // Where the caller stands is part of the workload: one case in eight is run from inside a
        // current-thread Tokio runtime (as under #[tokio::test] or a LocalSet), one from inside a
        // multi-threaded one; the statement holds wherever the call is made from.
        match i % 8 {
            6 => {
                obs.count("cases_called_from_inside_a_current_thread_runtime", 1);
                match tokio::runtime::Builder::new_current_thread().enable_all().build() {
                    Ok(rt) => rt.block_on(async { run_input(obs, &input, family) }),
                    Err(_) => run_input(obs, &input, family),
                }
            }
            7 if i % 64 == 7 => {
                obs.count("cases_called_from_inside_a_multi_thread_runtime", 1);
                match tokio::runtime::Builder::new_multi_thread().worker_threads(1).enable_all().build() {
                    Ok(rt) => rt.block_on(async { run_input(obs, &input, family) }),
                    Err(_) => run_input(obs, &input, family),
                }
            }
            _ => run_input(obs, &input, family),
        }
        if family.starts_with("bzip2-stream-cut-in-a-later-block") {
            // ... and the next thing this thread is asked to do is an ordinary small volume
            let spec = gen_container(&mut rng, 600);
            let (bytes, _) = spec.build();
            run_input(obs, &bytes, "small-valid-volume-right-after-a-failed-multi-block-read");
        }
        if obs.want_sample() && i % 509 == 9 {
            obs.sample(json!({"family": family, "len": input.len(), "input": crate::ev::hex_abbrev(&input, 48)}));
        }
    });
    // One set of records shared by all worker threads, decompressed over and over: three dozen
    // records of a megabyte each and a few of twenty, picked at random by every thread at once -
    // the same record often on several threads, more decompressed bytes in total than any
    // reasonable process-wide budget would keep.  The statement's claim here is only that every
    // call returns (a value or an error) without crashing; the sizes are checked as well.
    {
        let mut rng = Rng::derive(seed, 6, 0x5e7);
        let mut set: Vec<(Vec<u8>, usize)> = Vec::new();
        // (under a lane that slows execution down by an order of magnitude or more the set is small:
        // the lane is there for memory errors, the main run for the contention)
        let slowed = std::env::var("VERIF_CASES_DIV").ok().and_then(|v| v.parse::<u64>().ok()).map(|d| d >= 8).unwrap_or(false);
        for k in 0..if slowed { 10 } else { ctx.tier.pick(40usize, 120) } {
            let n = if slowed { (128 << 10) + k * 4096 } else if k % 10 == 9 { 20 << 20 } else { (1 << 20) + k * 4096 };
            let word = rng.bytes(rng.clone().urange(1, 24));
            let payload: Vec<u8> = word.iter().cycle().take(n).cloned().collect();
            set.push((enc::ldm_record(&enc::bzip2_compress(&payload, 1), k % 2 == 0), n));
        }
        let rounds: u64 = ctx.tier.pick(1_400, 24_000);
        let set = &set;
        par_cases(ctx, rounds, |i, obs| {
            let mut rng = Rng::derive(seed, 66, i);
            let k = if rng.chance(1, 24) { 9 + 10 * rng.usize_below(set.len() / 10) } else { rng.usize_below(set.len()) };
            let (rec, n) = &set[k];
            obs.case(mix(0x5e7, k as u64));
            let got = call(obs, "Record::decompress", "shared-set-of-large-records", &rec[..rec.len().min(256)], || Record::new(rec.clone()).decompress().map(|r| r.data().len()));
            match got {
                Some(Ok(len)) if len == *n => obs.count("decompressions_of_a_record_shared_by_all_threads", 1),
                Some(Ok(len)) => obs.violation("Record::decompress of a record shared by all threads returns another length", format!("record {} expands to {} bytes, got {}", k, n, len), json!({"family": "shared-set-of-large-records", "record": k})),
                Some(Err(e)) => obs.violation("Record::decompress refuses a well-formed record shared by all threads", format!("{e:?}"), json!({"family": "shared-set-of-large-records", "record": k})),
                None => {}
            }
        });
    }
    ctx.obs.max("case_cpu_ms", mon::MAX_CASE_CPU_MS.load(std::sync::atomic::Ordering::Relaxed));
}
