//! C18 — Real-time polling delivers chunks in order, without gaps or duplicates.
//!
//! The real `poll_chunks` runs on a tokio current-thread runtime with the clock paused (virtual
//! time: backoff and estimate sleeps auto-advance) against the loopback S3 simulator.  The
//! schedule of the external uploader is keyed to *request counts*, so a scenario is deterministic
//! given its seed.  Stop signals and consumer drops are injected at simulator sync points.  The
//! verdict comes from an offline checker over the recorded history (requests, deliveries, stats,
//! return value, virtual time).

use crate::enc::{self, gen_msg31, gen_vcp, MsgHeader, VolHeader};
use crate::ev::{par_cases, Ctx, Obs};
use crate::mon;
use crate::rng::{mix, Rng};
use crate::s3sim::{self, Obj, Req, Resp, Scope};
use nexrad_data::aws::realtime::{poll_chunks, Chunk, ChunkIdentifier, PollStats};
use nexrad_data::result::aws::AWSError;
use nexrad_data::result::Error;
use serde_json::json;
use std::collections::{BTreeMap, HashMap};
use std::sync::mpsc::{channel, Receiver, Sender};
use std::sync::{Arc, Mutex};

pub fn next_vol(v: usize) -> usize {
    if v >= 999 {
        1
    } else {
        v + 1
    }
}

#[derive(Clone, Debug)]
pub struct ChunkObj {
    pub vol: usize,
    pub seq: usize,
    pub name: String,
    pub bytes: Vec<u8>,
    pub upload_s: i64,
    /// GET attempts that fail before the object is served (visibility delay + transient faults).
    pub get_failures: Vec<u16>,
    pub never: bool,
}

#[derive(Clone, Debug, PartialEq)]
pub enum Terminal {
    /// planned[index] never appears (a sequence chunk: GET 404 forever; a volume: LIST empty forever)
    Never { index: usize },
    StopAtGet(usize),
    /// stop enqueued while the j-th listing of the polling loop (next-volume discovery) is served
    StopAtList(usize),
    DropAtGet(usize),
    StopBeforeStart,
}

#[derive(Clone, Debug)]
pub struct Plan {
    pub site: String,
    pub start_vol: usize,
    pub visible_at_start: usize,
    /// volumes entered after the start volume: (volume, LISTs answered empty first, chunks visible when it appears)
    pub later_vols: Vec<(usize, usize, usize)>,
    pub planned: Vec<(usize, usize)>,
    pub terminal: Terminal,
    pub populated_old_dirs: usize,
    pub future_upload: bool,
    /// answer the first download of the start volume's metadata chunk (-001-S, fetched right after
    /// the first delivery when polling starts later in the volume) with this status, once
    pub meta_fault: Option<u16>,
}

pub struct RtScope {
    pub plan: Plan,
    pub chunks: BTreeMap<(usize, usize), ChunkObj>,
    pub old_dirs: BTreeMap<usize, Obj>,
    pub list_counts: HashMap<usize, usize>, // max-keys=100 LISTs seen per volume
    pub get_counts: HashMap<String, usize>,
    pub gets_total: usize,
    pub log: Vec<(String, u16)>,
    pub rx: Option<Receiver<(ChunkIdentifier, Chunk<'static>)>>,
    pub stats_rx: Option<Receiver<PollStats>>,
    pub stop_tx: Option<Sender<bool>>,
    pub deliveries: Vec<(usize, ChunkIdentifier, Vec<u8>, bool)>,
    pub stats: Vec<(usize, String, usize)>,
    pub stop_at: Option<(usize, usize)>,  // (request index, deliveries drained so far)
    pub drop_at: Option<(usize, usize)>,
    pub runaway: bool,
    /// downloads seen when the current poll_chunks run began (a scenario may poll twice)
    pub run_gets_base: usize,
    pub polling_lists: usize,
}

impl RtScope {
    fn drain(&mut self) {
        let at = self.log.len();
        if let Some(rx) = &self.rx {
            while let Ok((id, chunk)) = rx.try_recv() {
                let is_start = matches!(chunk, Chunk::Start(_));
                self.deliveries.push((at, id, chunk.data().to_vec(), is_start));
            }
        }
        if let Some(rx) = &self.stats_rx {
            while let Ok(s) = rx.try_recv() {
                let (k, n) = match &s {
                    PollStats::LatestVolumeCalls(n) => ("LatestVolumeCalls", *n),
                    PollStats::NewVolumeCalls(n) => ("NewVolumeCalls", *n),
                    PollStats::NewChunk(c) => ("NewChunk", c.calls),
                    PollStats::ChunkTimings(_) => ("ChunkTimings", 0),
                };
                self.stats.push((at, k.to_string(), n));
            }
        }
    }

    fn visible_in(&self, vol: usize) -> Vec<&ChunkObj> {
        // chunks of `vol` that a LIST shows right now
        let upto = if vol == self.plan.start_vol {
            // start volume: initially visible chunks plus any already served
            self.plan.visible_at_start
        } else {
            match self.plan.later_vols.iter().find(|(v, _, _)| *v == vol) {
                Some((_, hidden, shown)) => {
                    let seen = self.list_counts.get(&vol).copied().unwrap_or(0);
                    if seen > *hidden {
                        *shown
                    } else {
                        0
                    }
                }
                None => 0,
            }
        };
        self.chunks
            .range((vol, 0)..=(vol, 99))
            .map(|(_, c)| c)
            .filter(|c| {
                !c.never
                    && (c.seq <= upto
                        || self.get_counts.get(&c.name).copied().unwrap_or(0) > c.get_failures.len())
            })
            .collect()
    }
}

impl Scope for RtScope {
    fn handle(&mut self, req: &Req) -> Resp {
        self.drain();
        if self.log.len() > 20_000 {
            self.runaway = true;
        }
        let resp = if self.runaway {
            // force the poller out: stop it and refuse everything
            if let Some(tx) = &self.stop_tx {
                let _ = tx.send(true);
            }
            Resp::status(500)
        } else if req.is_list() {
            let prefix = req.q("prefix").unwrap_or("").to_string();
            let max_keys = req.q("max-keys").and_then(|m| m.parse::<usize>().ok());
            let vol = prefix.split('/').nth(1).and_then(|v| v.parse::<usize>().ok()).unwrap_or(0);
            // listings made after the first download belong to the polling loop (next-volume
            // discovery); those before it to the initial search.  Classified by phase, never by
            // the request's max-keys value, which is the client's own business.
            let polling_phase = self.gets_total > self.run_gets_base;
            if polling_phase {
                *self.list_counts.entry(vol).or_insert(0) += 1;
                self.polling_lists += 1;
                // injection at this synchronisation point: the poller is inside its next-volume
                // discovery, i.e. past its stop check and before its next download and send
                if let Terminal::StopAtList(j) = self.plan.terminal {
                    if j == self.polling_lists && self.stop_at.is_none() {
                        if let Some(tx) = &self.stop_tx {
                            let _ = tx.send(true);
                        }
                        self.stop_at = Some((self.log.len(), self.deliveries.len()));
                    }
                }
            }
            // plain string-prefix semantics over every object visible right now, in key order
            let mut vols: Vec<usize> = self.chunks.keys().map(|k| k.0).collect();
            vols.dedup();
            let mut objs: Vec<Obj> = Vec::new();
            for v in vols {
                for c in self.visible_in(v) {
                    objs.push(Obj {
                        key: format!("{}/{}/{}", self.plan.site, c.vol, c.name),
                        last_modified: s3sim::rfc3339(c.upload_s * 1000, c.seq % 2 == 0),
                        size: c.bytes.len().to_string(),
                    });
                }
            }
            for (v, o) in &self.old_dirs {
                if !objs.iter().any(|x| x.key.starts_with(&format!("{}/{}/", self.plan.site, v))) {
                    objs.push(o.clone());
                }
            }
            objs.sort_by(|a, b| a.key.as_bytes().cmp(b.key.as_bytes()));
            let (sel, truncated, limit) = s3sim::select(&objs, &prefix, max_keys);
            let hidden_now = polling_phase
                && sel.is_empty()
                && self.plan.later_vols.iter().any(|(v, _, _)| *v == vol)
                && self.list_counts.get(&vol).copied().unwrap_or(0) % 2 == 0;
            if hidden_now {
                // a transient listing failure looks like an empty directory to the poller
                Resp::status(500)
            } else {
                Resp::xml(s3sim::list_xml(&req.bucket, &prefix, &sel, truncated, limit, false))
            }
        } else {
            self.gets_total += 1;
            let key = req.key.clone().unwrap_or_default();
            let name = key.rsplit('/').next().unwrap_or("").to_string();
            let vol = key.split('/').nth(1).and_then(|v| v.parse::<usize>().ok()).unwrap_or(0);
            let n_before = self.get_counts.get(&name).copied().unwrap_or(0);
            *self.get_counts.entry(name.clone()).or_insert(0) += 1;
            // injections at this synchronisation point: the poller is provably inside a download,
            // i.e. between its stop check and its next send
            match self.plan.terminal {
                Terminal::StopAtGet(j) if j == self.gets_total => {
                    if let Some(tx) = &self.stop_tx {
                        let _ = tx.send(true);
                    }
                    self.stop_at = Some((self.log.len(), self.deliveries.len()));
                }
                Terminal::DropAtGet(j) if j == self.gets_total => {
                    self.drain();
                    self.drop_at = Some((self.log.len(), self.deliveries.len()));
                    self.rx = None;
                }
                _ => {}
            }
            let seq = name.split('-').nth(2).and_then(|s| s.parse::<usize>().ok()).unwrap_or(0);
            match self.chunks.get(&(vol, seq)) {
                Some(c) if c.name == name && !c.never && n_before == 0 && seq == 1 && vol == self.plan.start_vol && self.plan.visible_at_start > 1 && self.plan.meta_fault.is_some() => {
                    Resp::status(self.plan.meta_fault.unwrap_or(500))
                }
                Some(c) if c.name == name && !c.never => {
                    if n_before < c.get_failures.len() && !(vol == self.plan.start_vol && seq <= self.plan.visible_at_start) {
                        Resp::status(c.get_failures[n_before])
                    } else {
                        Resp::object(c.bytes.clone(), Some(s3sim::rfc2822(c.upload_s)))
                    }
                }
                _ => Resp::status(404),
            }
        };
        self.log.push((req.raw.clone(), resp.status));
        resp
    }
}

fn chunk_name(prefix: &str, seq: usize) -> String {
    format!("{}-{:03}-{}", prefix, seq, match seq { 1 => "S", 55 => "E", _ => "I" })
}

fn chunk_bytes(rng: &mut Rng, start: bool, uniq: u64) -> Vec<u8> {
    let mut payload = Vec::new();
    if start {
        // metadata: a VCP frame (what the poller extracts), plus a status frame
        let n = rng.urange(0, 16);
        let mut v = gen_vcp(rng, n);
        for c in v.cuts.iter_mut() {
            c.waveform = rng.range(1, 5) as u8;
            c.channel = rng.below(3) as u8;
        }
        let h5 = MsgHeader::realistic(rng, 5);
        if rng.chance(1, 2) {
            let h2 = MsgHeader::realistic(rng, 2);
            payload.extend_from_slice(&enc::frame(&h2, &enc::encode_halfwords(&enc::gen_rda_status_in_domain(rng)), 0));
        }
        payload.extend_from_slice(&enc::frame(&h5, &v.encode(), 0));
    } else {
        for _ in 0..rng.urange(1, 3) {
            let mut m = gen_msg31(rng, 0b0000001111, false, false);
            for b in m.blocks.iter_mut() {
                if let enc::Block::Mom(mo) = b {
                    mo.gates %= 16;
                    mo.data.truncate(mo.gates as usize * (mo.word as usize / 8));
                }
            }
            let h = MsgHeader::realistic(rng, 31);
            payload.extend_from_slice(&enc::msg31_bytes(&h, &m.encode(rng)));
        }
    }
    payload.extend_from_slice(&uniq.to_be_bytes()); // unique payload (trailing fragment < header, ignored by decoders)
    let rec = enc::ldm_record(&enc::bzip2_compress(&payload, 1), rng.chance(1, 2));
    if start {
        let mut f = VolHeader::realistic(rng).encode().to_vec();
        f.extend_from_slice(&rec);
        f
    } else {
        rec
    }
}

pub fn gen_scenario(rng: &mut Rng, index: u64) -> (Plan, BTreeMap<(usize, usize), ChunkObj>, BTreeMap<usize, Obj>) {
    let site = s3sim::fresh_site();
    let start_vol = match index % 8 {
        0 => 999,
        1 => 998,
        2 => 1,
        3 => 997,
        4 => 2,
        5 => 500,
        _ => rng.urange(1, 999),
    };
    let visible_at_start = match rng.below(7) {
        0 => 1,
        1 => 55,
        2 => 54,
        3 | 6 => rng.urange(50, 55),
        _ => rng.urange(1, 55),
    };
    // wall-clock anchored upload times: in the past (no estimate sleep) or slightly in the future
    let future_upload = rng.chance(1, 3);
    let now_s = chrono::Utc::now().timestamp();
    let base_s = if future_upload { now_s - 200 } else { now_s - 100_000 };

    // termination
    let terminal_kind = rng.below(10);
    let path_len_wanted = match rng.below(5) {
        0 => rng.urange(0, 3),
        1 => rng.urange(56, 70),
        _ => rng.urange(3, 30),
    };
    // volumes the path can enter
    let v1 = next_vol(start_vol);
    let v2 = next_vol(v1);
    let later_vols = vec![
        (v1, *rng.pick(&[0usize, 0, 1, 2, 5, 9]), rng.urange(1, 3)),
        (v2, *rng.pick(&[0usize, 1, 3]), rng.urange(1, 2)),
    ];
    // planned path (everything the uploader will eventually publish, in delivery order)
    let mut planned: Vec<(usize, usize)> = Vec::new();
    planned.push((start_vol, visible_at_start));
    for s in visible_at_start + 1..=55 {
        planned.push((start_vol, s));
    }
    for (v, _, shown) in &later_vols {
        for s in *shown..=55 {
            planned.push((*v, s));
        }
    }
    let max_index = planned.len() - 1;
    let terminal = match terminal_kind {
        0 | 1 | 2 | 3 => Terminal::Never { index: (1 + path_len_wanted).min(max_index) },
        4 if visible_at_start >= 50 => Terminal::StopAtList(1 + rng.usize_below(later_vols[0].1 + 1)),
        4 | 5 | 6 => Terminal::StopAtGet(1 + rng.usize_below(path_len_wanted.min(60) + 2)),
        7 | 8 => Terminal::DropAtGet(1 + rng.usize_below(path_len_wanted.min(60) + 2)),
        _ => Terminal::StopBeforeStart,
    };
    let never_index = match terminal {
        Terminal::Never { index } => Some(index),
        _ => None,
    };

    let mut chunks: BTreeMap<(usize, usize), ChunkObj> = BTreeMap::new();
    let prefixes: HashMap<usize, String> = [start_vol, v1, v2]
        .iter()
        .enumerate()
        .map(|(i, v)| (*v, format!("202408{:02}-{:02}{:02}{:02}", 10 + i, rng.below(24), rng.below(60), rng.below(60))))
        .collect();
    let mut t = base_s;
    let mut uniq = index << 20;
    let mut add = |rng: &mut Rng, vol: usize, seq: usize, pidx: Option<usize>, chunks: &mut BTreeMap<(usize, usize), ChunkObj>| {
        // S3 timestamps have one-second granularity: consecutive chunks may share one
        t += *rng.pick(&[0i64, 0, 1, 4, 7, 9, 12]);
        uniq += 1;
        let never = pidx.is_some() && pidx == never_index;
        let nfail = if rng.chance(1, 2) { 0 } else { rng.urange(0, 4) };
        let get_failures = (0..nfail).map(|_| *rng.pick(&[404u16, 404, 404, 500, 403, 503])).collect();
        chunks.insert(
            (vol, seq),
            ChunkObj {
                vol,
                seq,
                name: chunk_name(&prefixes[&vol], seq),
                bytes: chunk_bytes(rng, seq == 1, uniq),
                upload_s: t,
                get_failures,
                never,
            },
        );
    };
    // start volume: all chunks 1..=55 (those <= visible_at_start are visible at start)
    for s in 1..=55 {
        let pidx = planned.iter().position(|p| *p == (start_vol, s));
        add(rng, start_vol, s, pidx, &mut chunks);
    }
    let horizon = match terminal {
        Terminal::Never { index } => index + 1,
        _ => planned.len(),
    };
    for (v, _, _) in &later_vols {
        for s in 1..=55 {
            let pidx = planned.iter().position(|p| *p == (*v, s));
            if pidx.map(|i| i <= horizon).unwrap_or(true) || s <= 3 {
                add(rng, *v, s, pidx, &mut chunks);
            }
        }
    }
    // a never *volume*: when the never chunk is the first planned chunk of a later volume, the
    // whole directory stays empty (LIST budget) instead of a GET budget
    // (handled in the scope through `never` on every chunk of that volume)
    if let Some(ni) = never_index {
        let (nv, ns) = planned[ni];
        if let Some((_, _, shown)) = later_vols.iter().find(|(v, _, _)| *v == nv) {
            if ns == *shown {
                for ((v, _), c) in chunks.iter_mut() {
                    if *v == nv {
                        c.never = true;
                    }
                }
            }
        }
    }

    if future_upload {
        let max_t = chunks.values().map(|c| c.upload_s).max().unwrap_or(now_s);
        // mostly: the whole history ends ~30 s ahead of this machine's clock; a third of these: the
        // *first chunk of the newest volume at start* is itself stamped ahead of the clock (the
        // bucket's clock runs ahead, or polling starts just as the volume begins)
        let start_first = chunks.get(&(start_vol, 1)).map(|c| c.upload_s).unwrap_or(max_t);
        let shift = if rng.chance(1, 3) { now_s + 20 + rng.below(40) as i64 - start_first } else { now_s + 30 - max_t };
        for c in chunks.values_mut() {
            c.upload_s += shift;
        }
    }
    let base_s = chunks.values().map(|c| c.upload_s).min().unwrap_or(base_s);

    // older directories: a contiguous run ending just before the start volume
    let populated_old_dirs = match rng.below(5) {
        0 => 0,
        1 => rng.urange(1, 5),
        _ => 990,
    };
    let mut old_dirs = BTreeMap::new();
    let mut v = start_vol;
    for j in 0..populated_old_dirs {
        v = if v == 1 { 999 } else { v - 1 };
        if v == v1 || v == v2 {
            break;
        }
        let when = base_s - 400 * (j as i64 + 1);
        old_dirs.insert(
            v,
            Obj {
                key: format!("{}/{}/20240801-{:06}-001-S", site, v, j),
                last_modified: s3sim::rfc3339(when * 1000, false),
                size: "100".into(),
            },
        );
    }
    (
        Plan {
            site,
            start_vol,
            visible_at_start,
            later_vols,
            planned,
            terminal,
            populated_old_dirs,
            future_upload,
            meta_fault: if visible_at_start > 1 && rng.chance(1, 10) { Some(*rng.pick(&[500u16, 404, 503])) } else { None },
        },
        chunks,
        old_dirs,
    )
}

#[derive(Debug)]
pub enum Outcome {
    Returned(Result<(), String>, u64 /* virtual ms */),
    Panicked(String),
    Hung,
}

/// Run the real poller once on its own thread (so that a hang can be told from progress).
fn poll_once(
    site: &str,
    scope: &Arc<Mutex<RtScope>>,
    tx: Sender<(ChunkIdentifier, Chunk<'static>)>,
    stats_tx: Option<Sender<PollStats>>,
    stop_rx: Receiver<bool>,
) -> Outcome {
    let (done_tx, done_rx) = channel::<Outcome>();
    let site = site.to_string();
    std::thread::spawn(move || {
        let r = mon::catch(|| {
            s3sim::block_on(true, async {
                let t0 = tokio::time::Instant::now();
                let r = poll_chunks(&site, tx, stats_tx, stop_rx).await;
                (r, t0.elapsed().as_millis() as u64)
            })
        });
        let _ = done_tx.send(match r {
            Ok((r, ms)) => Outcome::Returned(
                r.map_err(|e| match e {
                    Error::AWS(AWSError::ExpectedChunkNotFound) => "ExpectedChunkNotFound".to_string(),
                    Error::AWS(AWSError::PollingAsyncError) => "PollingAsyncError".to_string(),
                    Error::AWS(AWSError::LatestVolumeNotFound) => "LatestVolumeNotFound".to_string(),
                    other => format!("other: {other:?}"),
                }),
                ms,
            ),
            Err(p) => Outcome::Panicked(format!("{}|{}", p.signature(), p.message)),
        });
    });
    // watchdog: hang = no request for 60 s of wall time AND poll_chunks has not returned
    let mut last_len = 0usize;
    let mut quiet_s = 0u32;
    loop {
        match done_rx.recv_timeout(std::time::Duration::from_secs(1)) {
            Ok(o) => return o,
            Err(_) => {
                let len = scope.lock().map(|s| s.log.len()).unwrap_or(0);
                if len == last_len {
                    quiet_s += 1;
                } else {
                    quiet_s = 0;
                    last_len = len;
                }
                if quiet_s >= 60 {
                    return Outcome::Hung;
                }
            }
        }
    }
}

pub fn run_scenario(obs: &mut Obs, seed: u64, index: u64) {
    let mut rng = Rng::derive(seed, 18, index);
    let (plan, chunks, old_dirs) = gen_scenario(&mut rng, index);
    let sim = s3sim::global();
    let (tx, rx) = channel::<(ChunkIdentifier, Chunk<'static>)>();
    let (stats_tx, stats_rx) = channel::<PollStats>();
    let (stop_tx, stop_rx) = channel::<bool>();
    let with_stats = index % 5 != 4;
    if plan.terminal == Terminal::StopBeforeStart {
        let _ = stop_tx.send(true);
    }
    let scope = Arc::new(Mutex::new(RtScope {
        plan: plan.clone(),
        chunks,
        old_dirs,
        list_counts: HashMap::new(),
        get_counts: HashMap::new(),
        gets_total: 0,
        log: Vec::new(),
        rx: Some(rx),
        stats_rx: Some(stats_rx),
        stop_tx: Some(stop_tx),
        deliveries: Vec::new(),
        stats: Vec::new(),
        stop_at: if plan.terminal == Terminal::StopBeforeStart { Some((0, 0)) } else { None },
        drop_at: None,
        runaway: false,
        run_gets_base: 0,
        polling_lists: 0,
    }));
    sim.register(&plan.site, scope.clone());

    let outcome = poll_once(&plan.site, &scope, tx, if with_stats { Some(stats_tx) } else { None }, stop_rx);

    // ---- polling started a second time on the same site ------------------------------------------------
    // "every moment at which polling starts": a third of the stopped scenarios start the poller
    // again once it has returned, with the stop signal already pending.  Whatever the first run
    // left behind, the second must deliver exactly the newest chunk present *now* and return.
    let restart = index % 3 == 0
        && matches!(plan.terminal, Terminal::StopAtGet(_))
        && matches!(outcome, Outcome::Returned(Ok(()), _));
    if restart {
        let expected = scope.lock().ok().and_then(|mut g| {
            g.drain();
            let last = g.deliveries.last().map(|d| (d.1.volume().as_number(), d.1.sequence().unwrap_or(0)));
            // only while still inside the start volume (its metadata chunk is always downloadable)
            match last {
                Some((v, _)) if v == g.plan.start_vol && g.visible_in(next_vol(v)).is_empty() => {
                    let newest = g.visible_in(v).iter().map(|c| c.seq).max();
                    newest.map(|s| (v, s))
                }
                _ => None,
            }
        });
        if let Some(expected) = expected {
            let (tx2, rx2) = channel::<(ChunkIdentifier, Chunk<'static>)>();
            let (stop_tx2, stop_rx2) = channel::<bool>();
            let _ = stop_tx2.send(true);
            let mut first_log_len = 0usize;
            let first_run: Vec<(usize, ChunkIdentifier, Vec<u8>, bool)> = match scope.lock() {
                Ok(mut g) => {
                    first_log_len = g.log.len();
                    g.rx = Some(rx2);
                    g.stats_rx = None;
                    g.run_gets_base = g.gets_total;
                    std::mem::take(&mut g.deliveries)
                }
                Err(_) => Vec::new(),
            };
            let outcome2 = poll_once(&plan.site, &scope, tx2, None, stop_rx2);
            if let Ok(mut g) = scope.lock() {
                g.drain();
                let second: Vec<(usize, usize)> = g.deliveries.iter().map(|d| (d.1.volume().as_number(), d.1.sequence().unwrap_or(0))).collect();
                let payload_ok = g.deliveries.first().map(|d| g.chunks.get(&expected).map(|c| c.bytes == d.2).unwrap_or(false)).unwrap_or(false);
                let replay = json!({"scenario_index": index, "restart": true, "start_volume": plan.start_vol, "first_run_deliveries": first_run.len(),
                    "expected_first_delivery_of_second_run": expected, "second_run_deliveries": second, "second_run_outcome": format!("{:?}", outcome2)});
                match &outcome2 {
                    Outcome::Returned(Ok(()), _) if second == vec![expected] && payload_ok => obs.count("restarts_deliver_the_newest_chunk_present_then", 1),
                    Outcome::Returned(Err(e), _) if e.contains("connect") => obs.skipped_environment("loopback connect failed during a restarted poll"),
                    _ => obs.violation(
                        "polling started again on the same site does not deliver exactly the newest chunk present then",
                        format!("expected [{:?}] and Ok, observed {:?} and {:?}", expected, second, outcome2),
                        replay,
                    ),
                }
                // the first run's history is what the offline checker judges
                g.deliveries = first_run;
                obs.count("requests_logged_in_restarted_polls", (g.log.len() - first_log_len.min(g.log.len())) as u64);
                g.log.truncate(first_log_len);
            }
            let _ = stop_tx2;
        }
    }
    sim.unregister(&plan.site);
    let mut guard = match scope.lock() {
        Ok(g) => g,
        Err(_) => {
            obs.inconclusive("simulator scope poisoned");
            return;
        }
    };
    guard.drain();
    check_history(obs, &plan, &guard, &outcome, index, with_stats);
}

fn term_label(t: &Terminal) -> &'static str {
    match t {
        Terminal::Never { .. } => "never",
        Terminal::StopAtGet(_) => "stop",
        Terminal::StopAtList(_) => "stop-during-next-volume-discovery",
        Terminal::DropAtGet(_) => "consumer-drop",
        Terminal::StopBeforeStart => "stop-before-start",
    }
}

/// Offline checker over the recorded history.
pub fn check_history(obs: &mut Obs, plan: &Plan, h: &RtScope, outcome: &Outcome, index: u64, with_stats: bool) {
    let gets: Vec<(usize, String, u16)> = h
        .log
        .iter()
        .enumerate()
        .filter_map(|(i, (raw, st))| {
            let rq = s3sim::parse_url(raw, 0);
            rq.key.map(|k| (i, k, *st))
        })
        .collect();
    // listing requests issued by the initial search: everything logged when the LatestVolumeCalls
    // statistic was drained (it is sent right after the search returns and drained at the arrival
    // of the next request); without statistics, the requests before the first download minus the
    // one listing that picks the start chunk.  Independent of the requests' parameters.
    let first_get = gets.first().map(|g| g.0).unwrap_or(h.log.len());
    let lists1 = h.stats.iter().find(|s| s.1 == "LatestVolumeCalls").map(|s| s.0).unwrap_or(first_get.saturating_sub(1));
    let delivered: Vec<(usize, usize)> = h
        .deliveries
        .iter()
        .map(|(_, id, _, _)| (id.volume().as_number(), id.sequence().unwrap_or(0)))
        .collect();
    let fault_sig: u64 = h.chunks.values().take(60).fold(0u64, |a, c| mix(a, c.get_failures.len() as u64 + c.never as u64 * 8));
    obs.case(mix(
        mix(180, plan.start_vol as u64),
        mix(plan.visible_at_start as u64, mix(fault_sig, mix(crate::rng::fnv_str(term_label(&plan.terminal)), delivered.len() as u64))),
    ));
    let trace_hash = h.log.iter().fold(0u64, |a, (raw, st)| mix(a, mix(crate::rng::fnv_str(&raw[raw.find('/').unwrap_or(0) + 5..]), *st as u64)));
    obs.count(&format!("scenarios_{}", term_label(&plan.terminal)), 1);
    obs.count("requests_logged", h.log.len() as u64);
    obs.count("deliveries_checked", delivered.len() as u64);
    obs.max("requests_in_a_scenario", h.log.len() as u64);
    obs.distinct("request_traces", trace_hash);
    let replay = json!({"scenario_index": index, "site": plan.site, "start_volume": plan.start_vol, "visible_at_start": plan.visible_at_start,
        "later_volumes": plan.later_vols, "terminal": format!("{:?}", plan.terminal), "populated_old_dirs": plan.populated_old_dirs, "future_upload": plan.future_upload, "meta_fault": plan.meta_fault,
        "planned_head": plan.planned.iter().take(12).collect::<Vec<_>>(),
        "delivered": delivered.iter().take(80).collect::<Vec<_>>(), "outcome": format!("{:?}", outcome),
        "get_failures": h.chunks.values().filter(|c| !c.get_failures.is_empty() || c.never).take(40).map(|c| json!([c.vol, c.seq, c.get_failures, c.never])).collect::<Vec<_>>(),
        "request_tail": h.log.iter().rev().take(30).rev().map(|l| format!("{} -> {}", l.0, l.1)).collect::<Vec<_>>()});
    if obs.want_sample() && index % 17 == 3 {
        obs.sample(json!({"scenario_index": index, "start_volume": plan.start_vol, "visible_at_start": plan.visible_at_start, "terminal": format!("{:?}", plan.terminal),
            "delivered": delivered.iter().take(12).collect::<Vec<_>>(), "requests": h.log.len(), "outcome": format!("{:?}", outcome),
            "request_head": h.log.iter().skip(lists1.min(h.log.len())).take(6).map(|l| format!("{} -> {}", l.0, l.1)).collect::<Vec<_>>()}));
    }

    if h.runaway {
        obs.violation("polling keeps issuing requests without bound (more than 20,000 in one scenario)", format!("{} requests", h.log.len()), replay.clone());
        return;
    }
    let (result, virtual_ms) = match outcome {
        Outcome::Hung => {
            obs.violation(
                "polling hangs: no request for 60 s, every request answered, poll_chunks has not returned",
                format!("{} requests, {} deliveries", h.log.len(), delivered.len()),
                replay,
            );
            return;
        }
        Outcome::Panicked(p) => {
            let (sig, msg) = p.split_once('|').unwrap_or((p.as_str(), ""));
            obs.violation(format!("poll_chunks {}", sig), msg.to_string(), replay);
            return;
        }
        Outcome::Returned(r, ms) => (r.clone(), *ms),
    };
    obs.max("virtual_seconds_in_a_scenario", virtual_ms / 1000);

    // ---- deliveries: d0, strictly advancing, no duplicates, payload/label/time ----------------------------
    if let Some(first) = delivered.first() {
        if *first != plan.planned[0] {
            obs.violation(
                "first delivery is not the newest chunk present at start",
                format!("expected {:?}, observed {:?}", plan.planned[0], first),
                replay.clone(),
            );
            return;
        }
    }
    for w in delivered.windows(2) {
        let (a, b) = (w[0], w[1]);
        let ok = if a.1 < 55 { b == (a.0, a.1 + 1) } else { b.0 == next_vol(a.0) };
        if !ok {
            let sig = if b == a {
                "a chunk is delivered twice in a row"
            } else if b.0 == a.0 && b.1 > a.1 + 1 {
                "delivery skips ahead within a volume (gap)"
            } else if b.0 == a.0 && b.1 <= a.1 {
                "delivery goes backwards within a volume"
            } else if a.1 == 55 {
                "delivery after an end chunk is not from the next volume in rotation"
            } else {
                "delivery leaves the volume before its end chunk"
            };
            obs.violation(sig, format!("{:?} then {:?}", a, b), replay.clone());
            return;
        }
    }
    let mut seen = std::collections::HashSet::new();
    for d in &delivered {
        if !seen.insert(*d) {
            obs.violation("a chunk is delivered twice", format!("{:?}", d), replay.clone());
            return;
        }
    }
    // The statement fixes the first delivery and the successor relation, not *which* chunk of the
    // next volume follows an end chunk (the library takes the newest one listed; taking the volume
    // from its first chunk would be just as legal).  So the path is judged link by link (above),
    // and every delivered chunk must be one the uploader really published.
    for d in &delivered {
        match h.chunks.get(d) {
            Some(c) if c.never => {
                obs.violation("a chunk that never appeared is delivered", format!("{:?}", d), replay.clone());
                return;
            }
            Some(_) => {}
            None => {
                obs.violation("a delivered chunk was never uploaded", format!("{:?}", d), replay.clone());
                return;
            }
        }
    }
    if plan.planned.starts_with(&delivered) {
        obs.count("histories_following_the_newest_chunk_path", 1);
    } else {
        obs.count("histories_following_another_legal_path", 1);
    }
    for (_, id, data, is_start) in &h.deliveries {
        let key = (id.volume().as_number(), id.sequence().unwrap_or(0));
        let Some(c) = h.chunks.get(&key) else {
            obs.violation("a delivered chunk was never uploaded", format!("{:?}", key), replay.clone());
            return;
        };
        if data != &c.bytes {
            obs.violation("delivered payload differs from the uploaded object", format!("{:?}: {} vs {} bytes", key, data.len(), c.bytes.len()), replay.clone());
            return;
        }
        if id.name() != c.name || id.site() != plan.site {
            obs.violation("delivered chunk is not labelled with its own key", format!("{:?}: {:?}", key, id), replay.clone());
            return;
        }
        if id.date_time().map(|t| t.timestamp()) != Some(c.upload_s) {
            obs.violation("delivered chunk is not labelled with its upload time", format!("{:?}: expected {}, observed {:?}", key, c.upload_s, id.date_time()), replay.clone());
            return;
        }
        if *is_start != (c.seq == 1) {
            obs.violation("delivered chunk kind differs from its object", format!("{:?}", key), replay.clone());
            return;
        }
    }

    // ---- a fault on the start-up download of the metadata chunk -------------------------------------------
    // The statement lists when polling *must* end in an error; it does not say that a failed
    // start-up download may not end it too (the library gives up at once).  What has been judged
    // above still holds - the first delivery, order, no repeat, payloads; how polling ends after
    // such a fault is recorded, not judged.
    if plan.meta_fault.is_some() && matches!(result, Err(_)) && gets.iter().any(|g| g.1.ends_with(h.chunks.get(&(plan.start_vol, 1)).map(|c| c.name.as_str()).unwrap_or("\u{0}")) && g.2 != 200) {
        obs.count("pollings_ended_by_a_fault_on_the_start_up_metadata_download", 1);
        return;
    }

    // ---- never skips ahead: every object GET is for d0, the start volume's metadata chunk, or the
    //      successor of what had been delivered (by send order: deliveries drained at request k were
    //      sent before request k) ------------------------------------------------------------------------
    let meta_name = h.chunks.get(&(plan.start_vol, 1)).map(|c| c.name.clone()).unwrap_or_default();
    let mut meta_gets = 0;
    for (i, key, _) in &gets {
        let name = key.rsplit('/').next().unwrap_or("");
        let vol = key.split('/').nth(1).and_then(|v| v.parse::<usize>().ok()).unwrap_or(0);
        let seq = name.split('-').nth(2).and_then(|s| s.parse::<usize>().ok()).unwrap_or(0);
        let sent_before: Vec<(usize, usize)> = h.deliveries.iter().filter(|d| d.0 <= *i).map(|d| (d.1.volume().as_number(), d.1.sequence().unwrap_or(0))).collect();
        // the poller only downloads a chunk after it has sent its predecessor, and every send that
        // happened before this request was drained when the request arrived: the only admissible
        // download is the successor of the last chunk sent - the next sequence of the same volume,
        // or, after an end chunk, some chunk of the next volume in rotation
        if name == meta_name && vol == plan.start_vol && meta_gets < 2 {
            meta_gets += 1;
            continue;
        }
        let ok = match sent_before.last() {
            None => (vol, seq) == plan.planned[0],
            Some(&(lv, ls)) if ls < 55 => (vol, seq) == (lv, ls + 1),
            Some(&(lv, _)) => vol == next_vol(lv) && (1..=55).contains(&seq),
        };
        let allowed = format!("the successor of {:?}", sent_before.last());
        if !ok {
            obs.violation(
                "polling requests a chunk other than the next expected one (skips ahead or goes back)",
                format!("request {} GET {} while {} deliveries had been sent; allowed {:?}", i, key, sent_before.len(), allowed),
                replay.clone(),
            );
            return;
        }
    }

    // ---- statistics ------------------------------------------------------------------------------------------
    if with_stats {
        match h.stats.iter().find(|s| s.1 == "LatestVolumeCalls") {
            Some((_, _, n)) if *n == lists1 => obs.count("latest_volume_calls_equal_logged_lists", 1),
            Some((_, _, n)) => {
                obs.violation("LatestVolumeCalls differs from the listing requests issued by the search", format!("reported {}, logged {}", n, lists1), replay.clone());
                return;
            }
            None => {
                if !delivered.is_empty() {
                    obs.violation("no LatestVolumeCalls statistic was emitted", "", replay.clone());
                    return;
                }
            }
        }
        // The two retry statistics are recorded, not judged: the statement does not speak of them.
        // NewVolumeCalls vs. listings issued for that volume (empty/failed ones + the one that showed chunks)
        let new_vols: Vec<usize> = h.stats.iter().filter(|s| s.1 == "NewVolumeCalls").map(|s| s.2).collect();
        let entered: Vec<&(usize, usize, usize)> = plan.later_vols.iter().filter(|(v, _, _)| delivered.iter().any(|d| d.0 == *v)).collect();
        for (k, calls) in new_vols.iter().enumerate() {
            if let Some((v, hidden, _)) = entered.get(k) {
                let _ = v;
                obs.count(if *calls == hidden + 1 { "new_volume_calls_equal_logged_lists" } else { "new_volume_calls_differ_from_logged_lists" }, 1);
            }
        }
        // NewChunk.calls == GETs issued for that chunk
        let new_chunks: Vec<usize> = h.stats.iter().filter(|s| s.1 == "NewChunk").map(|s| s.2).collect();
        for (k, calls) in new_chunks.iter().enumerate() {
            if let Some(d) = delivered.get(k + 1) {
                let c = &h.chunks[d];
                let want = c.get_failures.len() + 1;
                obs.count(if *calls == want { "new_chunk_calls_equal_download_attempts" } else { "new_chunk_calls_differ_from_download_attempts" }, 1);
            }
        }
    }

    // ---- a scripted delay longer than the client's own retry budget -------------------------------------
    // The statement quantifies over delays of 0, 1 or 2 attempts; the scenarios also script 3..9.
    // If the client gives up on such a chunk after at least three attempts, all of which were
    // scripted failures, that is its retry budget at work, not a violation.
    let polling_lists_of = |vol: usize| -> usize {
        h.log
            .iter()
            .enumerate()
            .filter(|(i, (raw, _))| {
                *i > first_get && {
                    let rq = s3sim::parse_url(raw, 0);
                    rq.key.is_none() && rq.q("prefix").and_then(|p| p.split('/').nth(1).map(|v| v.parse::<usize>().ok() == Some(vol))).unwrap_or(false)
                }
            })
            .count()
    };
    if result == Err("ExpectedChunkNotFound".to_string()) {
        // the chunk the poller was waiting for when it gave up: the next one of the planned path, or,
        // on another legal path, the successor of its last delivery
        let on_planned_path = plan.planned.starts_with(&delivered);
        let waiting_for: Option<(usize, Option<usize>)> = if on_planned_path {
            plan.planned.get(delivered.len()).map(|&(v, s)| (v, Some(s)))
        } else {
            match delivered.last() {
                Some(&(lv, ls)) if ls < 55 => Some((lv, Some(ls + 1))),
                Some(&(lv, _)) => Some((next_vol(lv), None)),
                None => None,
            }
        };
        if let Some((nv, ns)) = waiting_for {
            let is_the_never = on_planned_path && matches!(plan.terminal, Terminal::Never { index } if index == delivered.len());
            if !is_the_never {
                let vol_entry = plan.later_vols.iter().find(|(v, _, shown)| *v == nv && (ns.is_none() || ns == Some(*shown)));
                let counts = match (vol_entry, ns.and_then(|s| h.chunks.get(&(nv, s)))) {
                    (Some((_, hidden, _)), _) => Some((*hidden, polling_lists_of(nv))),
                    (None, Some(c)) => Some((c.get_failures.len(), gets.iter().filter(|g| g.1.ends_with(c.name.as_str())).count())),
                    (None, None) => None,
                };
                if let Some((scripted, made)) = counts {
                    if scripted >= 3 && made >= 3 && made <= scripted {
                        obs.count("scripted_delays_longer_than_the_observed_retry_budget", 1);
                        return;
                    }
                }
            }
        }
    }

    // ---- termination -------------------------------------------------------------------------------------------
    match &plan.terminal {
        Terminal::Never { index: ni } => {
            // the poller must have come as far as the chunk right before the missing one (by
            // whichever legal path), and no further
            let (nv, ns) = plan.planned[*ni];
            let never_is_volume = plan.later_vols.iter().any(|(v, _, shown)| *v == nv && *shown == ns);
            let reached = match delivered.last() {
                Some(&(lv, ls)) if never_is_volume => ls == 55 && next_vol(lv) == nv,
                Some(&(lv, ls)) => lv == nv && ls + 1 == ns,
                None => false,
            };
            if !reached {
                obs.violation(
                    "polling stops before the retry budget is exhausted or delivers a chunk that never appeared",
                    format!("the missing chunk is {:?}; last delivery {:?} after {} deliveries; result {:?}", (nv, ns), delivered.last(), delivered.len(), result),
                    replay.clone(),
                );
                return;
            }
            if result != Err("ExpectedChunkNotFound".to_string()) {
                obs.violation("missing chunk is not reported as ExpectedChunkNotFound", format!("{:?}", result), replay.clone());
                return;
            }
            // The size of the retry budget and the length of the backoff are the client's own
            // constants: they are recorded (evidence: observed_*_retry_budget), not judged.  What is
            // judged is that the error is the documented one, that nothing was delivered that
            // never appeared, and (below) that giving up takes bounded virtual time.
            let (nv, ns) = plan.planned[*ni];
            let is_volume = plan.later_vols.iter().any(|(v, _, shown)| *v == nv && *shown == ns);
            if is_volume {
                let lists = polling_lists_of(nv);
                obs.distinct("observed_next_volume_retry_budget", lists as u64);
                obs.count("never_volume_reported_after_retries", 1);
            } else {
                let name = &h.chunks[&(nv, ns)].name;
                let n = gets.iter().filter(|g| g.1.ends_with(name.as_str())).count();
                obs.distinct("observed_chunk_retry_budget", n as u64);
                obs.count("never_chunk_reported_after_retries", 1);
            }
            obs.max("virtual_seconds_spent_giving_up", virtual_ms / 1000);
            // bounded progress: generous allowances for the backoff of up to three exhausted or
            // nearly exhausted budgets plus, per delivery, the estimate sleep (at most upload time -
            // wall clock + 70 s)
            let now_s = chrono::Utc::now().timestamp();
            let ahead: u64 = h.deliveries.iter().map(|d| {
                let c = &h.chunks[&(d.1.volume().as_number(), d.1.sequence().unwrap_or(0))];
                ((c.upload_s - now_s).max(0) as u64 + 120) * 1000
            }).sum();
            let bound = 600_000 + 520_000 * 3 + 16_000 * (delivered.len() as u64 + 1) + ahead;
            if virtual_ms > bound {
                obs.violation("polling exceeds the virtual-time bound of its retry budget", format!("{} ms > {} ms", virtual_ms, bound), replay.clone());
                return;
            }
        }
        Terminal::StopAtGet(_) | Terminal::StopAtList(_) | Terminal::StopBeforeStart => {
            let Some((_, before)) = h.stop_at else {
                // the poller ended before the injection point was reached: only legitimate if it
                // ran out of planned chunks, which the plans never allow
                obs.violation("polling returned before the stop signal although chunks kept appearing", format!("{:?} after {} deliveries", result, delivered.len()), replay.clone());
                return;
            };
            if result != Ok(()) {
                obs.violation("polling told to stop does not return successfully", format!("{:?}", result), replay.clone());
                return;
            }
            // `before` is exact: every send that preceded the request at which the signal was
            // enqueued had been drained when that request arrived, and the chunk then being
            // downloaded is the statement's "at most one further chunk"
            let after = delivered.len().saturating_sub(before);
            if after > 1 {
                obs.violation("more than one chunk delivered after the stop signal", format!("{} deliveries after the signal", after), replay.clone());
                return;
            }
            obs.count("stops_honoured_within_one_delivery", 1);
        }
        Terminal::DropAtGet(_) => {
            if h.drop_at.is_none() {
                obs.violation("polling returned before the consumer went away although chunks kept appearing", format!("{:?}", result), replay.clone());
                return;
            }
            if result != Err("PollingAsyncError".to_string()) {
                obs.violation("consumer gone is not reported as PollingAsyncError", format!("{:?}", result), replay.clone());
                return;
            }
            obs.count("consumer_drops_reported", 1);
        }
    }
    if delivered.windows(2).any(|w| w[0].0 == 999 && w[1].0 == 1) {
        obs.count("volume_wraps_999_to_1_observed", 1);
    }
    if delivered.windows(2).any(|w| w[0].0 != w[1].0) {
        obs.count("volume_transitions_observed", 1);
    }
    obs.count("histories_consistent", 1);
}

// ---------------------------------------------------------------------------------------------
// Polling that is abandoned and started again; two pollers of one site alive at once
// ---------------------------------------------------------------------------------------------
//
// "Every moment at which polling starts": also the moment right after an earlier polling future
// was dropped at an await point (a caller's `select!` or `timeout`), and the moment at which
// another poller of the same site is alive and has a download in flight.  Both are ordinary
// starts; the oracle is the statement's: the first delivery is the newest chunk present at that
// start, byte-identical, then the series advances by one.

pub struct PlainScope {
    pub site: String,
    pub vol: usize,
    pub chunks: Vec<ChunkObj>, // index = seq - 1
    pub visible_upto: usize,
    pub gets: usize,
    pub log: Vec<(String, u16)>,
    /// on the j-th download: tell the caller (who drops the polling future) and stall the reply mid-body
    pub abandon: Option<(usize, Arc<tokio::sync::Notify>)>,
    /// on the first download of this sequence number: publish it and the chunk after it, tell the
    /// harness (which starts a second poller) and keep the reply in flight until the gate opens
    pub hold_seq: Option<usize>,
    pub held: Option<Arc<s3sim::HoldGate>>,
    pub held_tx: Option<Sender<()>>,
    /// once armed (after the held download was let go): on the j-th download from then on the stop
    /// signal is enqueued while that download is served
    pub stop_tx: Option<Sender<bool>>,
    pub stop_after_gets: Option<usize>,
}

impl Scope for PlainScope {
    fn handle(&mut self, req: &Req) -> Resp {
        let resp = if req.is_list() {
            let prefix = req.q("prefix").unwrap_or("").to_string();
            let max_keys = req.q("max-keys").and_then(|m| m.parse::<usize>().ok());
            let mut objs: Vec<Obj> = self
                .chunks
                .iter()
                .filter(|c| c.seq <= self.visible_upto)
                .map(|c| Obj { key: format!("{}/{}/{}", self.site, c.vol, c.name), last_modified: s3sim::rfc3339(c.upload_s * 1000, c.seq % 2 == 0), size: c.bytes.len().to_string() })
                .collect();
            objs.sort_by(|a, b| a.key.as_bytes().cmp(b.key.as_bytes()));
            let (sel, truncated, limit) = s3sim::select(&objs, &prefix, max_keys);
            Resp::xml(s3sim::list_xml(&req.bucket, &prefix, &sel, truncated, limit, false))
        } else {
            self.gets += 1;
            if let Some(n) = self.stop_after_gets {
                if n <= 1 {
                    if let Some(tx) = &self.stop_tx {
                        let _ = tx.send(true);
                    }
                    self.stop_after_gets = None;
                } else {
                    self.stop_after_gets = Some(n - 1);
                }
            }
            let key = req.key.clone().unwrap_or_default();
            let name = key.rsplit('/').next().unwrap_or("").to_string();
            let seq = name.split('-').nth(2).and_then(|s| s.parse::<usize>().ok()).unwrap_or(0);
            let found = self.chunks.iter().position(|c| c.name == name && key == format!("{}/{}/{}", self.site, c.vol, c.name));
            match found {
                None => Resp::status(404),
                Some(i) => {
                    if self.hold_seq == Some(seq) && self.held.is_none() {
                        // the uploader publishes this chunk and the next while the download is in flight
                        self.visible_upto = self.visible_upto.max(seq + 1).min(55);
                        let c = &self.chunks[i];
                        let (r, gate) = Resp::held(Resp::object(c.bytes.clone(), Some(s3sim::rfc2822(c.upload_s))));
                        self.held = Some(gate);
                        if let Some(tx) = &self.held_tx {
                            let _ = tx.send(());
                        }
                        self.log.push((req.raw.clone(), 996));
                        return r;
                    }
                    // a chunk is uploaded when it is first asked for
                    if seq == self.visible_upto + 1 {
                        self.visible_upto = seq;
                    }
                    if seq > self.visible_upto {
                        Resp::status(404)
                    } else if matches!(&self.abandon, Some((j, _)) if *j == self.gets) {
                        let c = &self.chunks[i];
                        if let Some((_, note)) = &self.abandon {
                            note.notify_one();
                        }
                        let keep = c.bytes.len() / 2;
                        self.log.push((req.raw.clone(), 997));
                        return Resp::stalled(c.bytes[..keep].to_vec(), c.bytes.len() - keep);
                    } else {
                        let c = &self.chunks[i];
                        Resp::object(c.bytes.clone(), Some(s3sim::rfc2822(c.upload_s)))
                    }
                }
            }
        };
        self.log.push((req.raw.clone(), resp.status));
        resp
    }
}

type Delivery = (usize, usize, Vec<u8>);

/// Run the real poller on a thread of its own; with `abandon`, the polling future is dropped as
/// soon as the simulator says so.  Returns what `poll_chunks` returned (None when it was dropped).
fn spawn_poller(
    site: String,
    tx: Sender<(ChunkIdentifier, Chunk<'static>)>,
    stop_rx: Receiver<bool>,
    abandon: Option<Arc<tokio::sync::Notify>>,
) -> std::thread::JoinHandle<Result<Option<Result<(), String>>, String>> {
    std::thread::spawn(move || {
        let r = mon::catch(|| {
            s3sim::block_on(true, async {
                match abandon {
                    Some(note) => {
                        tokio::select! {
                            r = poll_chunks(&site, tx, None, stop_rx) => Some(r),
                            _ = note.notified() => None,
                        }
                    }
                    None => Some(poll_chunks(&site, tx, None, stop_rx).await),
                }
            })
        });
        match r {
            Ok(o) => Ok(o.map(|r| r.map_err(|e| format!("{e:?}")))),
            Err(p) => Err(format!("{}|{}", p.signature(), p.message)),
        }
    })
}

fn join_poller(h: std::thread::JoinHandle<Result<Option<Result<(), String>>, String>>, scope: &Arc<Mutex<PlainScope>>) -> Result<Option<Result<(), String>>, String> {
    // hang rule as elsewhere: no request for 60 s of wall time and no return
    let (mut last, mut quiet) = (0usize, 0u32);
    while !h.is_finished() {
        std::thread::sleep(std::time::Duration::from_millis(20));
        let len = scope.lock().map(|g| g.log.len()).unwrap_or(0);
        if len == last {
            quiet += 1;
        } else {
            quiet = 0;
            last = len;
        }
        if quiet >= 3000 {
            return Err("hung".into());
        }
    }
    h.join().unwrap_or_else(|_| Err("poller thread panicked outside the monitored call".into()))
}

fn drain_deliveries(rx: &Receiver<(ChunkIdentifier, Chunk<'static>)>) -> Vec<Delivery> {
    let mut v = Vec::new();
    while let Ok((id, chunk)) = rx.try_recv() {
        v.push((id.volume().as_number(), id.sequence().unwrap_or(0), chunk.data().to_vec()));
    }
    v
}

fn plain_scope(rng: &mut Rng, index: u64, visible: usize) -> PlainScope {
    let site = s3sim::fresh_site();
    let vol = *rng.pick(&[1usize, 2, 500, 998, 999, 37]);
    let prefix = format!("202408{:02}-{:02}{:02}{:02}", 10 + rng.below(18), rng.below(24), rng.below(60), rng.below(60));
    let mut t = chrono::Utc::now().timestamp() - 100_000;
    let chunks = (1..=55usize)
        .map(|seq| {
            t += *rng.pick(&[1i64, 4, 7, 9, 12]);
            ChunkObj { vol, seq, name: chunk_name(&prefix, seq), bytes: chunk_bytes(rng, seq == 1, (index << 20) + 0x80000 + seq as u64), upload_s: t, get_failures: vec![], never: false }
        })
        .collect();
    PlainScope { site, vol, chunks, visible_upto: visible, gets: 0, log: Vec::new(), abandon: None, hold_seq: None, held: None, held_tx: None, stop_tx: None, stop_after_gets: None }
}

/// deliveries must start at `first` and advance by one, each byte-identical to the uploaded chunk
fn series_fault(d: &[Delivery], vol: usize, first: usize, scope: &PlainScope) -> Option<String> {
    for (k, (v, s, bytes)) in d.iter().enumerate() {
        if *v != vol || *s != first + k {
            return Some(format!("delivery {} is ({}, {}), expected ({}, {})", k, v, s, vol, first + k));
        }
        if scope.chunks.get(s - 1).map(|c| &c.bytes != bytes).unwrap_or(true) {
            return Some(format!("payload of ({}, {}) differs from the uploaded object", v, s));
        }
    }
    None
}

pub fn run_abandoned(obs: &mut Obs, seed: u64, index: u64) {
    let mut rng = Rng::derive(seed, 181, index);
    let m = rng.urange(2, 40);
    let mut sc = plain_scope(&mut rng, index, m);
    let note = Arc::new(tokio::sync::Notify::new());
    let j = rng.urange(1, 5);
    sc.abandon = Some((j, note.clone()));
    let (site, vol) = (sc.site.clone(), sc.vol);
    let scope = Arc::new(Mutex::new(sc));
    let sim = s3sim::global();
    sim.register(&site, scope.clone());
    obs.case(mix(mix(1810, m as u64), j as u64));
    let (tx, rx) = channel();
    let (stop_tx, stop_rx) = channel::<bool>();
    let first = join_poller(spawn_poller(site.clone(), tx, stop_rx, Some(note)), &scope);
    drop(stop_tx);
    let d1 = drain_deliveries(&rx);
    let replay = json!({"scenario": "abandoned-and-restarted", "scenario_index": index, "visible_at_start": m, "abandoned_at_download": j, "volume": vol,
        "first_run_deliveries": d1.iter().map(|d| (d.0, d.1)).collect::<Vec<_>>()});
    let env = |e: &str| e.contains("onnect");
    match &first {
        Err(e) if e == "hung" => obs.violation("polling hangs", "abandon scenario, first run", replay.clone()),
        Err(e) => obs.violation(format!("poll_chunks {}", e.split('|').next().unwrap_or("panic")), e.clone(), replay.clone()),
        Ok(Some(Err(e))) if env(e) => {
            obs.skipped_environment("loopback connect failed during polling");
            sim.unregister(&site);
            return;
        }
        Ok(Some(r)) => obs.violation("polling returned although chunks kept appearing and nobody told it to stop", format!("{:?}", r), replay.clone()),
        Ok(None) => obs.count("polling_futures_dropped_while_a_download_was_in_flight", 1),
    }
    if let Ok(g) = scope.lock() {
        if let Some(f) = series_fault(&d1, vol, m, &g) {
            obs.violation("deliveries before polling was abandoned are not the newest chunk at start followed by its successors", f, replay.clone());
        }
    }
    // the site is polled again, with the stop signal already pending: exactly the newest chunk present now
    let expected = scope.lock().map(|mut g| { g.abandon = None; g.visible_upto }).unwrap_or(m);
    let (tx2, rx2) = channel();
    let (stop_tx2, stop_rx2) = channel::<bool>();
    let _ = stop_tx2.send(true);
    let second = join_poller(spawn_poller(site.clone(), tx2, stop_rx2, None), &scope);
    let d2 = drain_deliveries(&rx2);
    sim.unregister(&site);
    let fault = scope.lock().ok().and_then(|g| series_fault(&d2, vol, expected, &g));
    match &second {
        Ok(Some(Err(e))) if env(e) => obs.skipped_environment("loopback connect failed during a restarted poll"),
        Ok(Some(Ok(()))) if d2.len() == 1 && fault.is_none() => obs.count("restarts_after_an_abandoned_poll_deliver_the_newest_chunk_present_then", 1),
        other => obs.violation(
            "polling started again after an abandoned poll does not deliver exactly the newest chunk present then",
            format!("expected [({}, {})] and Ok, observed {:?} and {:?} {}", vol, expected, d2.iter().map(|d| (d.0, d.1)).collect::<Vec<_>>(), other, fault.unwrap_or_default()),
            replay,
        ),
    }
}

pub fn run_twins(obs: &mut Obs, seed: u64, index: u64) {
    let mut rng = Rng::derive(seed, 182, index);
    let m = rng.urange(2, 40);
    let mut sc = plain_scope(&mut rng, index, m);
    let (held_tx, held_rx) = channel::<()>();
    sc.hold_seq = Some(m + 1);
    sc.held_tx = Some(held_tx);
    let (site, vol) = (sc.site.clone(), sc.vol);
    let scope = Arc::new(Mutex::new(sc));
    let sim = s3sim::global();
    sim.register(&site, scope.clone());
    obs.case(mix(1820, m as u64));
    let (tx_a, rx_a) = channel();
    let (stop_a, stop_rx_a) = channel::<bool>();
    let a = spawn_poller(site.clone(), tx_a, stop_rx_a, None);
    // wait until the first poller's download of chunk m+1 is in flight (it has delivered chunk m)
    let in_flight = held_rx.recv_timeout(std::time::Duration::from_secs(30)).is_ok();
    let replay = json!({"scenario": "two-pollers-of-one-site", "scenario_index": index, "visible_at_first_start": m, "volume": vol});
    let mut d_b = Vec::new();
    let mut second = None;
    if in_flight {
        // chunks m+1 and m+2 are in the bucket now: a poller that starts here starts at m+2
        let (tx_b, rx_b) = channel();
        let (stop_b, stop_rx_b) = channel::<bool>();
        let _ = stop_b.send(true);
        second = Some(join_poller(spawn_poller(site.clone(), tx_b, stop_rx_b, None), &scope));
        d_b = drain_deliveries(&rx_b);
    }
    // the first poller's download is let go; three downloads later the simulator enqueues its stop
    // signal (while a download is being served: at most one further delivery)
    if let Ok(mut g) = scope.lock() {
        g.stop_tx = Some(stop_a.clone());
        g.stop_after_gets = Some(3);
        if let Some(gate) = g.held.clone() {
            gate.release();
        }
    }
    if !in_flight {
        let _ = stop_a.send(true);
    }
    let mut d_a: Vec<Delivery> = Vec::new();
    let first = join_poller(a, &scope);
    d_a.extend(drain_deliveries(&rx_a));
    sim.unregister(&site);
    let env = |e: &str| e.contains("onnect");
    if matches!(&first, Ok(Some(Err(e))) if env(e)) || matches!(&second, Some(Ok(Some(Err(e)))) if env(e)) {
        obs.skipped_environment("loopback connect failed during polling");
        return;
    }
    if !in_flight {
        match &first {
            Err(e) => obs.violation(format!("poll_chunks {}", e.split('|').next().unwrap_or("panic")), e.clone(), replay),
            other => obs.violation("polling ends or stalls before it asks for the chunk after the newest one", format!("{:?}", other), replay),
        }
        return;
    }
    let g = match scope.lock() {
        Ok(g) => g,
        Err(_) => return,
    };
    let fault_b = series_fault(&d_b, vol, m + 2, &g);
    match &second {
        Some(Ok(Some(Ok(())))) if d_b.len() == 1 && fault_b.is_none() => obs.count("pollers_started_beside_a_live_poller_of_the_site_deliver_the_newest_chunk_present_then", 1),
        other => obs.violation(
            "a poller started while another poller of the site is alive does not first deliver the newest chunk present at its start",
            format!("expected [({}, {})] and Ok, observed {:?} and {:?} {}", vol, m + 2, d_b.iter().map(|d| (d.0, d.1)).collect::<Vec<_>>(), other, fault_b.unwrap_or_default()),
            replay.clone(),
        ),
    }
    let fault_a = series_fault(&d_a, vol, m, &g);
    match &first {
        Ok(Some(Ok(()))) if fault_a.is_none() && !d_a.is_empty() => obs.count("pollers_with_a_second_poller_started_beside_them_deliver_in_order", 1),
        other => obs.violation(
            "a poller beside which another poller of the site was started does not deliver the series from its own start",
            format!("first start at ({}, {}): observed {:?} and {:?} {}", vol, m, d_a.iter().map(|d| (d.0, d.1)).collect::<Vec<_>>(), other, fault_a.unwrap_or_default()),
            replay,
        ),
    }
}

pub fn run(ctx: &mut Ctx) {
    ctx.rule = "a case is one scenario: an upload history (start volume incl. 1/2/500/997/998/999, 1..=55 chunks visible at start, older directories populated or not, per-chunk visibility delay / transient 404/500/403/503 of 0..4 failing downloads, next volumes appearing after 0..9 empty listings with 1..3 chunks, upload times in the past or up to ~200 s around now) and a termination (a chunk or volume that never appears, stop injected at the j-th download, consumer dropped at the j-th download, stop before start), run through the real poll_chunks under a paused tokio clock against the simulator; \
distinct = distinct (start, visibility, fault, termination, delivery count) signatures and distinct request traces; oracle = offline checker over the recorded history"
        .into();
    ctx.assumptions = vec![
        "the directory after the newest volume is empty until its first chunk is uploaded (the statement's upload model); directories after it are not consulted".into(),
        "visibility and faults are keyed to request counts, time is tokio's paused clock; wall time only feeds the hang rule (60 s without a request and no return)".into(),
        "the stop signal is enqueued by the simulator while it serves a download, i.e. when the poller is provably past its stop check: the chunk being downloaded is the one further delivery the statement allows, and the count of earlier deliveries is exact".into(),
    ];
    ctx.floor_evaluations = 20;
    let total: u64 = ctx.tier.pick(400, 20_000);
    let seed = ctx.seed;
    par_cases(ctx, total, |i, obs| match i % 20 {
        7 => run_abandoned(obs, seed, i),
        13 => run_twins(obs, seed, i),
        _ => run_scenario(obs, seed, i),
    });
    ctx.obs.count("simulator_unrouted_requests", s3sim::global().unrouted.load(std::sync::atomic::Ordering::SeqCst));
}
