//! C16 — Chunk and archive identifiers: parsing and successor arithmetic.

use crate::cal;
use crate::ev::{Ctx, Obs};
use crate::mon;
use crate::rng::{mix, Rng};
use nexrad_data::aws::archive::Identifier;
use nexrad_data::aws::realtime::{ChunkIdentifier, ChunkType, NextChunk, VolumeIndex};
use serde_json::json;

fn type_letter(seq: usize) -> char {
    match seq {
        1 => 'S',
        55 => 'E',
        _ => 'I',
    }
}
fn want_type(seq: usize) -> ChunkType {
    match seq {
        1 => ChunkType::Start,
        55 => ChunkType::End,
        _ => ChunkType::Intermediate,
    }
}

fn mk(site: &str, vol: usize, prefix: &str, seq: usize) -> ChunkIdentifier {
    ChunkIdentifier::new(
        site.to_string(),
        VolumeIndex::new(vol),
        format!("{}-{:03}-{}", prefix, seq, type_letter(seq)),
        None,
    )
}

fn check_position(obs: &mut Obs, site: &str, vol: usize, prefix: &str, seq: usize) {
    obs.case(mix(mix(160, vol as u64), mix(seq as u64, crate::rng::fnv_str(prefix))));
    let replay = json!({"site": site, "volume": vol, "prefix": prefix, "sequence": seq});
    let r = mon::catch(|| {
        let id = mk(site, vol, prefix, seq);
        let mut errs: Vec<(String, String)> = Vec::new();
        if id.sequence() != Some(seq) {
            errs.push(("sequence() does not parse back".into(), format!("{:?}", id.sequence())));
        }
        if id.chunk_type() != Some(want_type(seq)) {
            errs.push(("chunk_type() wrong".into(), format!("{:?}", id.chunk_type())));
        }
        if id.name_prefix() != prefix {
            errs.push(("name_prefix() wrong".into(), id.name_prefix().to_string()));
        }
        if id.site() != site || id.volume().as_number() != vol {
            errs.push(("site/volume accessors wrong".into(), format!("{} {}", id.site(), id.volume().as_number())));
        }
        // with_sequence for every target
        for s2 in 1..=55usize {
            let d = id.with_sequence(s2);
            if d.site() != site
                || d.volume().as_number() != vol
                || d.name_prefix() != prefix
                || d.sequence() != Some(s2)
                || d.chunk_type() != Some(want_type(s2))
                || d.name() != format!("{}-{:03}-{}", prefix, s2, type_letter(s2))
            {
                errs.push(("with_sequence() does not keep site/volume/prefix or mislabels".into(), format!("target {} -> {:?}", s2, d)));
                break;
            }
        }
        // successor
        match id.next_chunk() {
            None => errs.push(("next_chunk() is None on a well-formed name".into(), String::new())),
            Some(NextChunk::Sequence(n)) => {
                if seq >= 55 {
                    errs.push(("successor of sequence 55 stays in the volume".into(), format!("{:?}", n)));
                } else if n.site() != site
                    || n.volume().as_number() != vol
                    || n.sequence() != Some(seq + 1)
                    || n.chunk_type() != Some(want_type(seq + 1))
                    || n.name() != format!("{}-{:03}-{}", prefix, seq + 1, type_letter(seq + 1))
                {
                    errs.push(("successor below 55 is not (volume, sequence+1)".into(), format!("{:?}", n)));
                }
            }
            Some(NextChunk::Volume(v)) => {
                let want = if vol == 999 { 1 } else { vol + 1 };
                if seq < 55 {
                    errs.push(("successor below 55 leaves the volume".into(), format!("{:?}", v)));
                } else if v.as_number() != want {
                    errs.push(("successor after 55 is not the next volume in rotation".into(), format!("volume {} -> {}", vol, v.as_number())));
                }
            }
        }
        errs
    });
    match r {
        Err(p) => obs.violation(format!("chunk identifier {}", p.signature()), p.message, replay),
        Ok(errs) => {
            if errs.is_empty() {
                obs.count("positions_parse_back_and_succeed_correctly", 1);
            }
            for (sig, detail) in errs {
                obs.violation(sig, detail, replay.clone());
            }
        }
    }
}

fn successor_walk(obs: &mut Obs, site: &str, prefix: &str) {
    obs.case(mix(161, crate::rng::fnv_str(prefix)));
    let mut seen = vec![false; 1000 * 56];
    let mut id = mk(site, 1, prefix, 1);
    let mut steps = 0u64;
    loop {
        let vol = id.volume().as_number();
        let seq = id.sequence().unwrap_or(0);
        if !(1..=999).contains(&vol) || !(1..=55).contains(&seq) {
            obs.violation(
                "successor walk names a volume outside 1..=999 or a sequence outside 1..=55",
                format!("step {}: volume {} sequence {}", steps, vol, seq),
                json!({"step": steps}),
            );
            return;
        }
        let k = vol * 56 + seq;
        if seen[k] {
            if vol == 1 && seq == 1 && steps == 999 * 55 {
                obs.count("successor_cycle_steps", steps);
                obs.count("successor_cycles_closed", 1);
            } else {
                obs.violation(
                    "successor walk revisits a position before completing the cycle",
                    format!("step {}: volume {} sequence {}", steps, vol, seq),
                    json!({"step": steps}),
                );
            }
            return;
        }
        seen[k] = true;
        steps += 1;
        let next = match mon::catch(|| id.next_chunk()) {
            Ok(Some(n)) => n,
            Ok(None) => {
                obs.violation("next_chunk() is None during the walk", format!("step {}", steps), json!({"step": steps}));
                return;
            }
            Err(p) => {
                obs.violation(format!("next_chunk {}", p.signature()), p.message, json!({"step": steps}));
                return;
            }
        };
        id = match next {
            NextChunk::Sequence(n) => n,
            NextChunk::Volume(v) => {
                let vn = v.as_number();
                if !(1..=999).contains(&vn) {
                    obs.violation(
                        "successor names volume 0 or 1000",
                        format!("after volume {}: {}", vol, vn),
                        json!({"step": steps}),
                    );
                    return;
                }
                mk(site, vn, prefix, 1)
            }
        };
        if steps > 60_000 {
            obs.violation("successor walk does not close", "", json!({}));
            return;
        }
    }
}

fn unicode_string(rng: &mut Rng) -> String {
    let alphabet: [&str; 24] = [
        "K", "D", "M", "X", "0", "1", "2", "9", "-", "_", ".", " ", "S", "I", "E", "é", "ß", "日", "本", "🛰", "\u{0301}", "+", "\t", "V",
    ];
    let n = match rng.below(6) {
        0 => rng.usize_below(4),
        1 => rng.urange(4, 13),
        2 => rng.urange(13, 20),
        _ => rng.urange(0, 40),
    };
    let mut s = String::new();
    for _ in 0..n {
        s.push_str(alphabet[rng.usize_below(alphabet.len())]);
    }
    s
}

/// Strings near the valid grammars with multi-byte characters placed to straddle byte offsets
/// 4, 12, 13, 15, 19.
fn near_valid(rng: &mut Rng) -> String {
    if rng.chance(1, 6) {
        // a well-formed archive name whose date field is eight digits and no date; the same one
        // comes back every few calls (a name asked about twice)
        let bad = ["20230229", "20241301", "20240431", "20240600", "19000229", "20240230", "21000229"];
        return format!("KDMX{}_{:02}{:02}{:02}_V06", bad[rng.usize_below(bad.len())], rng.below(24), rng.below(60), rng.below(60));
    }
    let base = if rng.chance(1, 2) { "KDMX20240813_123330_V06" } else { "20240813-123330-014-I" };
    let mut chars: Vec<char> = base.chars().collect();
    for _ in 0..rng.urange(1, 3) {
        let at = *rng.pick(&[0usize, 2, 3, 4, 10, 11, 12, 13, 14, 15, 17, 18, 19, 20]);
        let c = *rng.pick(&['é', '日', '🛰', 'ß', '-', ' ', '+']);
        if at < chars.len() {
            if rng.chance(1, 2) {
                chars[at] = c;
            } else {
                chars.insert(at, c);
            }
        }
    }
    let s: String = chars.into_iter().collect();
    if rng.chance(1, 3) {
        let cut = rng.usize_below(s.chars().count() + 1);
        s.chars().take(cut).collect()
    } else {
        s
    }
}

fn totality(obs: &mut Obs, s: &str, shape: u64) {
    obs.case(shape);
    let replay = json!({"text": s, "utf8_hex": crate::ev::hex(s.as_bytes())});
    let r = mon::catch(|| {
        let a = Identifier::new(s.to_string());
        let site = a.site().map(|x| x.to_string());
        let dt = a.date_time();
        // asked again at once, the same identifier says the same (and a copy of it too)
        let again = (a.date_time(), a.clone().date_time(), a.site().map(|x| x.to_string()));
        let consistent = again.0 == dt && again.1 == dt && again.2 == site;
        let c = ChunkIdentifier::new("KDMX".into(), VolumeIndex::new(1), s.to_string(), None);
        (site, dt, c.sequence(), c.chunk_type(), a.name().to_string(), format!("{:?}", c), consistent)
    });
    match r {
        Err(p) => obs.violation(
            format!("identifier parser {}", p.signature()),
            format!("{} on {:?}", p.message, s),
            replay,
        ),
        Ok((site, dt, seq, ct, _name, _dbg, consistent)) => {
            obs.count("arbitrary_strings_returned_without_panic", 1);
            if !consistent {
                obs.violation("an identifier asked twice in a row gives different answers", format!("{:?}: first {:?}", s, dt), replay.clone());
            }
            // none when the text does not parse (judged only where unparsable is unambiguous)
            let b = s.as_bytes();
            if b.len() < 4 && site.is_some() {
                obs.violation("site() gives a value for a name shorter than four bytes", format!("{:?}", site), replay.clone());
            }
            let letters_in = |r: std::ops::Range<usize>| b.get(r).map(|x| x.iter().any(|c| c.is_ascii_alphabetic() || *c >= 0x80)).unwrap_or(true);
            // eight digits that are no calendar date (month 13, 31 April, 29 February of a common
            // year, day 00) do not parse either
            let not_a_date = b.len() >= 12 && b[4..12].iter().all(|c| c.is_ascii_digit()) && {
                let num = |r: std::ops::Range<usize>| std::str::from_utf8(&b[r]).ok().and_then(|t| t.parse::<i64>().ok()).unwrap_or(0);
                let (y, m, d) = (num(4..8), num(8..10), num(10..12));
                m < 1 || m > 12 || d < 1 || d > cal::days_in_month(y, m as u32) as i64
            };
            if not_a_date && dt.is_some() {
                obs.violation("date_time() gives a value for a date field that is no calendar date", format!("{:?} -> {:?}", s, dt), replay.clone());
            }
            if (b.len() < 19 || letters_in(4..12) || letters_in(13..19)) && dt.is_some() {
                obs.violation("date_time() gives a value for text that does not parse", format!("{:?} -> {:?}", s, dt), replay.clone());
            }
            let third = s.split('-').nth(2);
            let unparsable = match third {
                None => true,
                Some(t) => t.is_empty() || t.chars().any(|c| !c.is_ascii_digit() && c != '+'),
            };
            if unparsable && seq.is_some() {
                obs.violation("sequence() gives a value for text that does not parse", format!("{:?} -> {:?}", s, seq), replay.clone());
            }
            if let Some(t) = third {
                if !t.is_empty() && t.len() <= 15 && t.chars().all(|c| c.is_ascii_digit()) && seq != t.parse::<usize>().ok() {
                    obs.violation("sequence() fails on a numeric third field", format!("{:?} -> {:?}", s, seq), replay.clone());
                }
            }
            let want_ct = match s.chars().last() {
                Some('S') => Some(ChunkType::Start),
                Some('I') => Some(ChunkType::Intermediate),
                Some('E') => Some(ChunkType::End),
                _ => None,
            };
            if ct != want_ct {
                obs.violation("chunk_type() not determined by the final letter", format!("{:?} -> {:?}", s, ct), replay);
            }
        }
    }
}

pub fn run(ctx: &mut Ctx) {
    ctx.rule = "chunk names: one case per (volume, sequence, prefix) position: parse back sequence/type/prefix, with_sequence to all 55 targets, successor; full successor walks; archive names: one case per generated SSSSYYYYMMDD_HHMMSS+suffix; totality: one case per arbitrary Unicode string; \
distinct = distinct positions / names / strings; oracle = reference successor on (volume, sequence), visited-set bijection over 999x55, site and instant recovered exactly (integer calendar), no panic and None where the text unambiguously does not parse"
        .into();
    ctx.exhaustive = Some("all 999 x 55 positions x 3 prefixes with all 55 with_sequence targets; the full 54,945-step successor cycle".into());
    ctx.floor_evaluations = 100_000;
    let seed = ctx.seed;
    let mut rng = Rng::derive(seed, 16, 0);
    let obs = &mut ctx.obs;

    let prefixes = ["20240813-123330", "19991231-235959", "20280229-000000"];
    for (pi, prefix) in prefixes.iter().enumerate() {
        let site = ["KTLX", "KDMX", "PHKI"][pi];
        for vol in 1..=999usize {
            for seq in 1..=55usize {
                check_position(obs, site, vol, prefix, seq);
            }
        }
        successor_walk(obs, site, prefix);
    }
    // the same site and volume directory under *changing* prefixes, back to back: a rotating
    // directory is reused by a new volume scan every few hours, so two chunks that agree on site
    // and volume need not agree on anything else
    {
        let n = ctx.tier.pick(30_000u64, 600_000u64);
        for k in 0..n {
            let site = ["KTLX", "KDMX", "kdmx", "Ktlx", "nop4", "FOP1"][(k / 64 % 6) as usize];
            let vol = *rng.pick(&[1usize, 2, 500, 998, 999]);
            let prefix = if rng.chance(1, 2) {
                prefixes[rng.usize_below(3)].to_string()
            } else {
                format!("{:04}{:02}{:02}-{:02}{:02}{:02}", rng.range(1991, 2100), rng.range(1, 12), rng.range(1, 28), rng.below(24), rng.below(60), rng.below(60))
            };
            check_position(obs, site, vol, &prefix, rng.range(1, 55) as usize);
            obs.count("positions_under_changing_prefixes_for_one_directory", 1);
        }
    }
    // many different sites in one process (the network has about 160; nothing limits the count):
    // each identifier keeps the site it was made with, through derivation and succession
    {
        let n_sites = ctx.tier.pick(700usize, 70_000usize);
        for k in 0..n_sites {
            let site = format!("{}{}{}{}", (b'A' + (k / 17_576 % 26) as u8) as char, (b'A' + (k / 676 % 26) as u8) as char, (b'A' + (k / 26 % 26) as u8) as char, (b'A' + (k % 26) as u8) as char);
            check_position(obs, &site, 1 + k % 999, prefixes[k % 3], 1 + k % 55);
        }
        obs.count("distinct_sites_in_one_process", n_sites as u64);
    }
    obs.sample(json!({"kind": "position", "name": "20240813-123330-055-E", "volume": 999, "expected_successor": "volume 1"}));

    // ---- archive names -----------------------------------------------------------------------------------
    let n = ctx.tier.pick(100_000, 3_000_000);
    for i in 0..n {
        if i % 128 == 1 {
            crate::props::poison::run(i as u64);
        }
        // mostly the radar era; a sixth of the names anywhere in the four-digit years (a date beyond
        // 2149 does not fit a 16-bit day count, one before 1970 is negative)
        let y = if rng.chance(1, 6) { rng.range(1, 9999) as i64 } else { rng.range(1991, 2100) as i64 };
        let mo = rng.range(1, 12) as u32;
        let d = match rng.below(4) {
            0 => cal::days_in_month(y, mo),
            1 => 1,
            _ => rng.range(1, cal::days_in_month(y, mo) as u64) as u32,
        };
        let (h, mi, s) = match rng.below(4) {
            0 => (23, 59, 59),
            1 => (0, 0, 0),
            _ => (rng.below(24) as u32, rng.below(60) as u32, rng.below(60) as u32),
        };
        // four-character site: letters as in KTLX, but also digits (FOP1, NOP3, DAN1 are real
        // sites), lower case, and now and then any printable ASCII - the name form says "SSSS"
        let site_kind = rng.below(8);
        let site: String = (0..4)
            .map(|k| match site_kind {
                0 | 1 | 2 => {
                    if k == 0 {
                        *rng.pick(&['K', 'P', 'T', 'R'])
                    } else {
                        (b'A' + rng.below(26) as u8) as char
                    }
                }
                3 | 4 => {
                    if k == 3 {
                        (b'0' + rng.below(10) as u8) as char
                    } else {
                        (b'A' + rng.below(26) as u8) as char
                    }
                }
                5 => *rng.pick(&['A', 'Z', '0', '9', 'k', 'q']),
                6 => (b'a' + rng.below(26) as u8) as char,
                _ => rng.range(0x21, 0x7e) as u8 as char,
            })
            .collect();
        let suffix = match rng.below(6) {
            0 => "".to_string(),
            1 => "_V06".to_string(),
            2 => "_V06_MDM".to_string(),
            3 => ".gz".to_string(),
            4 => "_V03.gz".to_string(),
            _ => (0..rng.urange(0, 12)).map(|_| rng.range(0x21, 0x7e) as u8 as char).collect(),
        };
        let name = format!("{}{:04}{:02}{:02}_{:02}{:02}{:02}{}", site, y, mo, d, h, mi, s, suffix);
        obs.case(mix(162, i));
        let want_ms = cal::days_from_civil(y, mo, d) * 86_400_000 + (h as i64 * 3600 + mi as i64 * 60 + s as i64) * 1000;
        let replay = json!({"name": name});
        match mon::catch(|| {
            let id = Identifier::new(name.clone());
            (id.site().map(|x| x.to_string()), id.date_time().map(|t| t.timestamp_millis()), id.name().to_string())
        }) {
            Err(p) => obs.violation(format!("archive identifier {}", p.signature()), p.message, replay),
            Ok((s_, t, nm)) => {
                if s_.as_deref() != Some(site.as_str()) {
                    obs.violation("archive site not recovered", format!("{} -> {:?}", name, s_), replay.clone());
                } else if t != Some(want_ms) {
                    obs.violation("archive date-time not recovered exactly", format!("{} -> {:?}, expected {}", name, t, want_ms), replay.clone());
                } else if nm != name {
                    obs.violation("archive name() differs", nm, replay.clone());
                } else {
                    obs.count("archive_names_recovered_exactly", 1);
                }
            }
        }
        if obs.samples.len() < 3 && i == 5 {
            obs.sample(json!({"kind": "archive-name", "name": name, "expected_epoch_ms": want_ms}));
        }
    }

    // ---- totality on arbitrary strings ------------------------------------------------------------------
    let n = ctx.tier.pick(600_000, 12_000_000);
    for i in 0..n {
        if i % 128 == 1 {
            crate::props::poison::run(i as u64);
        }
        let s = if i % 3 == 0 { near_valid(&mut rng) } else { unicode_string(&mut rng) };
        totality(obs, &s, mix(163, crate::rng::fnv_str(&s)));
        if obs.samples.len() < 5 && i == 17 {
            obs.sample(json!({"kind": "arbitrary-string", "text": s}));
        }
    }
    for s in ["", "K", "KDMX", "-", "--", "---", "a-b-", "a-b-c", "a-b-99999999999999999999999", "S", "\u{0301}", "🛰🛰🛰🛰"] {
        totality(obs, s, mix(164, crate::rng::fnv_str(s)));
    }
}
