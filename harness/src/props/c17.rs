//! C17 — S3 listing and download return exactly what the bucket holds.

use crate::enc;
use crate::ev::{par_cases, Ctx, Obs};
use crate::mon;
use crate::rng::{mix, Rng};
use crate::s3sim::{self, Obj, Req, Resp, Scope, ARCHIVE_BUCKET, REALTIME_BUCKET};
use chrono::NaiveDate;
use nexrad_data::aws::archive::{self, Identifier};
use nexrad_data::aws::realtime::{self, Chunk, ChunkIdentifier, VolumeIndex};
use nexrad_data::result::aws::AWSError;
use nexrad_data::result::Error;
use serde_json::json;
use std::collections::HashMap;
use std::sync::{Arc, Mutex};

#[derive(Clone)]
pub enum ListMode {
    Normal,
    /// Serve this body verbatim with status 200.
    Garbled(Vec<u8>),
    Status(u16),
}

#[derive(Clone)]
pub struct Stored {
    pub bytes: Vec<u8>,
    pub last_modified_s: Option<i64>,
    pub status: u16, // 200 = serve; otherwise scripted status
}

pub struct Bucket {
    pub objs: Vec<Obj>, // sorted by key bytes
    pub data: HashMap<String, Stored>,
    pub list_mode: ListMode,
    pub log: Vec<(String, u16)>,
}

impl Scope for Bucket {
    fn handle(&mut self, req: &Req) -> Resp {
        let resp = if req.is_list() {
            match &self.list_mode {
                ListMode::Normal => {
                    let prefix = req.q("prefix").unwrap_or("").to_string();
                    let max_keys = req.q("max-keys").and_then(|m| m.parse::<usize>().ok());
                    let (sel, truncated, limit) = s3sim::select(&self.objs, &prefix, max_keys);
                    Resp::xml(s3sim::list_xml(&req.bucket, &prefix, &sel, truncated, limit, req.n % 2 == 1))
                }
                ListMode::Garbled(b) => Resp { status: 200, headers: vec![], body: b.clone() },
                ListMode::Status(s) => Resp::status(*s),
            }
        } else {
            let key = req.key.clone().unwrap_or_default();
            match self.data.get(&key) {
                None => Resp::status(404),
                // 2001: the object's 200 reply breaks off after a third of the body (the connection
                // closes short of the announced Content-Length)
                Some(st) if st.status == 2001 && st.bytes.len() >= 3 => Resp::cut_short(st.bytes[..st.bytes.len() / 3].to_vec(), st.bytes.len() - st.bytes.len() / 3),
                Some(st) if st.status == 200 || st.status == 2001 => Resp::object(st.bytes.clone(), st.last_modified_s.map(s3sim::rfc2822)),
                Some(st) if st.status == 301 => Resp { status: 301, headers: vec![], body: b"<Error><Code>PermanentRedirect</Code></Error>".to_vec() },
                Some(st) => Resp::status(st.status),
            }
        };
        self.log.push((req.raw.clone(), resp.status));
        resp
    }
}

const HOSTILE: [&str; 18] = [
    "a&b", "x<y", "p>q", "say\"hi\"", "it's", "&amp;", "a&lt;b", "naïve", "日本", "sp ace", "semi;colon", "plus+sign", "tab\there", "]]>cdata",
    // white space at the very end of a key (and of its final path segment) belongs to the key
    "trail ", "trail\t", "two  ", "<!--c-->",
];

fn key_tail(rng: &mut Rng, i: usize, hostile: bool, nested: bool) -> String {
    let mut t = format!("obj{:04}", i);
    if hostile {
        t.push_str(HOSTILE[rng.usize_below(HOSTILE.len())]);
        if rng.chance(1, 3) {
            t.push_str(HOSTILE[rng.usize_below(HOSTILE.len())]);
        }
    }
    if nested {
        t = if rng.chance(1, 4) {
            // different objects whose final path segments coincide: still one identifier each
            format!("d{}/dup", i)
        } else {
            format!("dir{}/{}", rng.below(3), t)
        };
    }
    t
}

fn size_text(rng: &mut Rng, allow_bad: bool) -> (String, bool) {
    if allow_bad && rng.chance(1, 3) {
        return (rng.pick(&["abc", "-1", "18446744073709551616", "1e3", "0x10"]).to_string(), false);
    }
    let v: u64 = match rng.below(4) {
        0 => 0,
        1 => u64::MAX,
        2 => rng.next_u64(),
        _ => rng.below(10_000_000),
    };
    (v.to_string(), true)
}

/// True when the error is a failure to *connect* to the loopback simulator (environment, not the
/// code under test).
fn is_connect_error(e: &Error) -> bool {
    match e {
        Error::AWS(AWSError::S3ListObjectsError(re)) | Error::AWS(AWSError::S3GetObjectRequestError(re)) => re.is_connect(),
        _ => false,
    }
}

fn final_segment(key: &str) -> &str {
    key.rsplit('/').next().unwrap_or(key)
}

fn run_list_archive(obs: &mut Obs, rng: &mut Rng, idx: u64) {
    let sim = s3sim::global();
    let site = s3sim::fresh_site();
    let (y, m, d) = match rng.below(6) {
        0 => (rng.range(1995, 2030) as i32, 12u32, rng.range(29, 30) as u32),
        1 => (rng.range(1995, 2030) as i32, 1u32, rng.range(1, 3) as u32),
        _ => (rng.range(1995, 2030) as i32, rng.range(1, 12) as u32, rng.range(1, 28) as u32),
    };
    let prefix = format!("{:04}/{:02}/{:02}/{}", y, m, d, site);
    let n = match rng.below(6) {
        0 => 0,
        1 => 1,
        2 => 1000,
        3 => rng.urange(1001, 1100),
        _ => rng.urange(1, 60),
    };
    let hostile = rng.chance(1, 2);
    let nested = rng.chance(1, 4);
    let bad_size = rng.chance(1, 6);
    let mut objs: Vec<Obj> = Vec::new();
    let mut any_bad = false;
    for i in 0..n {
        let h = hostile && rng.chance(1, 2);
        let ne = nested && rng.chance(1, 2);
        let tail = key_tail(rng, i, h, ne);
        let (size, ok) = size_text(rng, bad_size && i % 7 == 3);
        any_bad |= !ok;
        objs.push(Obj {
            key: format!("{}/{}", prefix, tail),
            last_modified: s3sim::rfc3339(1_500_000_000_000 + rng.below(200_000_000_000) as i64, rng.chance(1, 2)),
            size,
        });
    }
    // zero-byte "folder" placeholders (keys ending in '/'), as the S3 console creates them: they
    // are objects under the prefix like any other, named by their (empty) final path segment
    if hostile && rng.chance(1, 2) {
        // ... and keys whose final segment is "." or "..": text after the last '/', nothing else
        for key in [format!("{}/", prefix), format!("{}/dir{}/", prefix, rng.below(3)), format!("{}/old/.", prefix), format!("{}/..", prefix)] {
            objs.push(Obj { key, last_modified: s3sim::rfc3339(1_500_000_000_000 + rng.below(200_000_000_000) as i64, rng.chance(1, 2)), size: "0".into() });
        }
        obs.count("listings_with_folder_placeholder_objects", 1);
    }
    // a neighbouring day and a sibling site share nothing with the prefix
    objs.push(Obj { key: format!("{:04}/{:02}/{:02}/{}/other", y, m, d + 1, site), last_modified: s3sim::rfc3339(1_600_000_000_000, false), size: "1".into() });
    objs.sort_by(|a, b| a.key.as_bytes().cmp(b.key.as_bytes()));
    let scope = Arc::new(Mutex::new(Bucket { objs: objs.clone(), data: HashMap::new(), list_mode: ListMode::Normal, log: vec![] }));
    sim.register(&site, scope.clone());
    obs.case(mix(mix(170, n.min(1002) as u64), (hostile as u64) << 2 | (nested as u64) << 1 | bad_size as u64));
    let date = NaiveDate::from_ymd_opt(y, m, d).expect("valid date");
    let r = mon::catch(|| s3sim::block_on(false, archive::list_files(&site, &date)));
    sim.unregister(&site);
    let log = scope.lock().map(|s| s.log.clone()).unwrap_or_default();
    let under: Vec<&Obj> = objs.iter().filter(|o| o.key.starts_with(&prefix)).collect();
    let truncated = under.len() > 1000;
    let first_bad = under.iter().take(1000).any(|o| o.size.parse::<u64>().is_err());
    let replay = json!({"scenario": "archive-list", "index": idx, "prefix": prefix, "objects": under.len(), "keys": under.iter().take(30).map(|o| o.key.clone()).collect::<Vec<_>>(),
        "sizes": under.iter().take(30).map(|o| o.size.clone()).collect::<Vec<_>>(), "requests": log});
    let _ = any_bad;
    match r {
        Err(p) => obs.violation(format!("list_files {}", p.signature()), p.message, replay),
        Ok(res) => {
            // request shape: recorded, not judged (the statement fixes what a listing returns, not
            // the query parameters; the simulator implements prefix / max-keys / truncation the way
            // S3 does, so a request for the wrong thing yields wrong identifiers below)
            let ok_req = log.len() == 1 && {
                let rq = s3sim::parse_url(&log[0].0, 0);
                rq.bucket == ARCHIVE_BUCKET && rq.q("prefix") == Some(prefix.as_str()) && rq.q("list-type") == Some("2") && rq.q("max-keys").is_none()
            };
            obs.count(if ok_req { "archive_listings_with_canonical_request" } else { "archive_listings_with_other_request_shape" }, 1);
            if first_bad {
                match res {
                    Err(_) => obs.count("unparsable_size_is_error", 1),
                    Ok(v) => obs.violation("unparsable size field is not an error", format!("Ok with {} identifiers", v.len()), replay),
                }
                return;
            }
            if truncated {
                match res {
                    Err(Error::AWS(AWSError::TruncatedListObjectsResponse)) => obs.count("truncated_archive_listing_is_error", 1),
                    other => obs.violation(
                        "truncated archive listing is not reported as TruncatedListObjectsResponse",
                        format!("{:?}", other.map(|v| v.len())),
                        replay,
                    ),
                }
                return;
            }
            match res {
                Err(e) if is_connect_error(&e) => obs.skipped_environment(format!("loopback connect failed: {e:?}")),
                Err(e) => obs.violation("archive listing of a well-formed bucket fails", format!("{e:?}"), replay),
                Ok(ids) => {
                    let got: Vec<String> = ids.iter().map(|i| i.name().to_string()).collect();
                    let want: Vec<String> = under.iter().map(|o| final_segment(&o.key).to_string()).collect();
                    if got.len() != want.len() {
                        obs.violation("archive listing: identifier count differs from objects under the prefix", format!("{} objects, {} identifiers", want.len(), got.len()), replay);
                    } else if got != want {
                        let at = got.iter().zip(want.iter()).position(|(a, b)| a != b).unwrap_or(0);
                        let sig = if under[at].key[prefix.len() + 1..].contains('/') {
                            "archive listing: name is not the final path segment (nested key)"
                        } else if under[at].key.chars().any(|c| "&<>\"'".contains(c)) {
                            "archive listing: name differs for a key with XML-special characters"
                        } else {
                            "archive listing: names differ or are out of bucket order"
                        };
                        obs.violation(sig, format!("object {} key {:?}: expected name {:?}, observed {:?}", at, under[at].key, want[at], got[at]), replay);
                    } else {
                        obs.count("archive_listings_exact", 1);
                        obs.count("listed_identifiers_checked", got.len() as u64);
                    }
                }
            }
        }
    }
}

fn run_list_realtime(obs: &mut Obs, rng: &mut Rng, idx: u64) {
    let sim = s3sim::global();
    let site = s3sim::fresh_site();
    let vol = rng.urange(1, 999);
    let prefix = format!("{}/{}/", site, vol);
    let n = match rng.below(5) {
        0 => 0,
        1 => 55,
        2 => rng.urange(100, 140),
        _ => rng.urange(1, 55),
    };
    let hostile = rng.chance(1, 3);
    let mut objs: Vec<Obj> = Vec::new();
    let mut times: HashMap<String, i64> = HashMap::new();
    for i in 0..n {
        let seq = i + 1;
        // when hostile, the directory holds the tail of an older scan next to a newer one:
        // bucket (key) order is then not sequence-number order
        let scan = if hostile && seq > n / 2 { "20240812-091500" } else { "20240813-123330" };
        let mut name = format!("{}-{:03}-{}", scan, seq, if seq == 1 { "S" } else if seq == 55 { "E" } else { "I" });
        if hostile && rng.chance(1, 3) {
            name.push_str(HOSTILE[rng.usize_below(HOSTILE.len())]);
        }
        if hostile && rng.chance(1, 6) {
            // a key with a further path segment: the identifier is still the final segment
            name = format!("part{}/{}", rng.below(3), name);
        }
        let t = 1_700_000_000_000 + rng.below(100_000_000_000) as i64;
        let key = format!("{}{}", prefix, name);
        times.insert(key.clone(), t);
        objs.push(Obj { key, last_modified: s3sim::rfc3339(t, rng.chance(1, 2)), size: size_text(rng, false).0 });
    }
    if hostile && rng.chance(1, 2) {
        for key in [prefix.clone(), format!("{}part{}/", prefix, rng.below(3))] {
            let t = 1_700_000_000_000 + rng.below(100_000_000_000) as i64;
            times.insert(key.clone(), t);
            objs.push(Obj { key, last_modified: s3sim::rfc3339(t, rng.chance(1, 2)), size: "0".into() });
        }
        obs.count("listings_with_folder_placeholder_objects", 1);
    }
    // a neighbouring volume whose number has this one as a prefix: SITE/5/ vs SITE/55/
    objs.push(Obj { key: format!("{}/{}5/20240813-000000-001-S", site, vol), last_modified: s3sim::rfc3339(1_600_000_000_000, false), size: "7".into() });
    objs.sort_by(|a, b| a.key.as_bytes().cmp(b.key.as_bytes()));
    let max_keys = *rng.pick(&[1usize, 2, 10, 54, 55, 100, 1000, 5000, 0]);
    let scope = Arc::new(Mutex::new(Bucket { objs: objs.clone(), data: HashMap::new(), list_mode: ListMode::Normal, log: vec![] }));
    sim.register(&site, scope.clone());
    obs.case(mix(mix(171, n as u64), mix(max_keys as u64, hostile as u64)));
    // One listing in four has a second listing of the same directory, with another max-keys, in
    // flight beside it on the same runtime; each must return what its own request asks for.
    let twin_max: Option<usize> = if rng.chance(1, 4) { Some(*rng.pick(&[1usize, 3, 100, 1000, 54])) } else { None };
    let mut twin_result: Option<Result<usize, String>> = None;
    let r = mon::catch(|| match twin_max {
        None => s3sim::block_on(false, realtime::list_chunks_in_volume(&site, VolumeIndex::new(vol), max_keys)),
        Some(other) => {
            let (a, b) = s3sim::block_on(false, async {
                tokio::join!(realtime::list_chunks_in_volume(&site, VolumeIndex::new(vol), max_keys), realtime::list_chunks_in_volume(&site, VolumeIndex::new(vol), other))
            });
            twin_result = Some(b.map(|ids| ids.len()).map_err(|e| format!("{e:?}")));
            a
        }
    });
    sim.unregister(&site);
    let log = scope.lock().map(|s| s.log.clone()).unwrap_or_default();
    if let (Some(other), Some(res)) = (twin_max, &twin_result) {
        let want = objs.iter().filter(|o| o.key.starts_with(&prefix)).take(other.min(1000)).count();
        match res {
            Ok(n) if *n == want => obs.count("listings_of_one_directory_in_flight_at_once_with_different_max_keys", 1),
            Ok(n) => obs.violation(
                "real-time listing: identifier count differs when another listing of the directory is in flight beside it",
                format!("max-keys {} beside max-keys {}: {} objects within max-keys, {} identifiers", other, max_keys, want, n),
                json!({"scenario": "realtime-list-twin", "index": idx, "prefix": prefix, "max_keys": [max_keys, other], "requests": log}),
            ),
            Err(e) if e.contains("onnect") => {}
            Err(e) => obs.violation("real-time listing of a well-formed bucket fails", e.clone(), json!({"scenario": "realtime-list-twin", "index": idx, "prefix": prefix, "max_keys": [max_keys, other]})),
        }
    }
    let under: Vec<&Obj> = objs.iter().filter(|o| o.key.starts_with(&prefix)).take(max_keys.min(1000)).collect();
    let replay = json!({"scenario": "realtime-list", "index": idx, "prefix": prefix, "max_keys": max_keys, "keys": under.iter().take(30).map(|o| o.key.clone()).collect::<Vec<_>>(), "requests": log});
    match r {
        Err(p) => obs.violation(format!("list_chunks_in_volume {}", p.signature()), p.message, replay),
        Ok(Err(e)) if is_connect_error(&e) => obs.skipped_environment(format!("loopback connect failed: {e:?}")),
        Ok(Err(e)) => obs.violation("real-time listing of a well-formed bucket fails", format!("{e:?}"), replay),
        Ok(Ok(ids)) => {
            let ok_req = twin_max.is_none() && log.len() == 1 && {
                let rq = s3sim::parse_url(&log[0].0, 0);
                rq.bucket == REALTIME_BUCKET && rq.q("prefix") == Some(prefix.as_str()) && rq.q("max-keys") == Some(max_keys.to_string().as_str())
            };
            obs.count(if ok_req { "realtime_listings_with_canonical_request" } else { "realtime_listings_with_other_request_shape" }, 1);
            if ids.len() != under.len() {
                obs.violation("real-time listing: identifier count differs", format!("{} objects within max-keys, {} identifiers", under.len(), ids.len()), replay);
                return;
            }
            for (i, (id, o)) in ids.iter().zip(under.iter()).enumerate() {
                let want_name = final_segment(&o.key);
                let want_t = times.get(&o.key).copied();
                if id.name() != want_name || id.site() != site || id.volume().as_number() != vol {
                    obs.violation(
                        "real-time listing: identifier does not name its object",
                        format!("object {} key {:?}: observed ({}, {}, {:?})", i, o.key, id.site(), id.volume().as_number(), id.name()),
                        replay,
                    );
                    return;
                }
                if id.date_time().map(|t| t.timestamp_millis()) != want_t.map(|t| if o.last_modified.contains('.') { t } else { t / 1000 * 1000 }) {
                    obs.violation(
                        "real-time listing: identifier is not stamped with its LastModified",
                        format!("object {} LastModified {:?}: observed {:?}", i, o.last_modified, id.date_time()),
                        replay,
                    );
                    return;
                }
            }
            obs.count("realtime_listings_exact", 1);
            obs.count("listed_identifiers_checked", ids.len() as u64);
        }
    }
}

fn run_list_garbled(obs: &mut Obs, rng: &mut Rng, idx: u64) {
    let sim = s3sim::global();
    let site = s3sim::fresh_site();
    let good = s3sim::list_xml(REALTIME_BUCKET, "p", &[&Obj { key: format!("{}/1/20240813-123330-001-S", site), last_modified: "2024-08-13T12:33:30.000Z".into(), size: "5".into() }], false, 1000, false);
    let body: Vec<u8> = match rng.below(8) {
        0 => Vec::new(),
        1 => good.as_bytes()[..rng.usize_below(good.len())].to_vec(),
        2 => rng.bytes(rng.clone().usize_below(300)),
        3 => b"<ListBucketResult><Key>orphan</Key></ListBucketResult>".to_vec(),
        4 => b"<ListBucketResult><Contents><Size>12</Size><Size>zz</Size></Contents></ListBucketResult>".to_vec(),
        5 => good.replace("</Key>", "").into_bytes(),
        6 => b"<?xml version=\"1.0\"?><Error><Code>AccessDenied</Code></Error>".to_vec(),
        _ => {
            let mut b = good.clone().into_bytes();
            for _ in 0..rng.urange(1, 6) {
                let p = rng.usize_below(b.len());
                b[p] = rng.u8();
            }
            b
        }
    };
    let mode = if rng.chance(1, 4) { ListMode::Status(*rng.pick(&[403u16, 404, 500, 503])) } else { ListMode::Garbled(body.clone()) };
    let scope = Arc::new(Mutex::new(Bucket { objs: vec![], data: HashMap::new(), list_mode: mode, log: vec![] }));
    sim.register(&site, scope);
    obs.case(mix(172, crate::rng::fnv(&body)));
    let date = NaiveDate::from_ymd_opt(2024, 8, 13).expect("date");
    let r1 = mon::catch(|| s3sim::block_on(false, archive::list_files(&site, &date)).is_ok());
    let r2 = mon::catch(|| s3sim::block_on(false, realtime::list_chunks_in_volume(&site, VolumeIndex::new(1), 10)).is_ok());
    sim.unregister(&site);
    let replay = json!({"scenario": "garbled-list", "index": idx, "body_hex": crate::ev::hex(&body)});
    for (name, r) in [("list_files", r1), ("list_chunks_in_volume", r2)] {
        match r {
            Err(p) => obs.violation(format!("{} on a garbled listing body {}", name, p.signature()), p.message, replay.clone()),
            Ok(_) => obs.count("garbled_listings_returned_without_panic", 1),
        }
    }
}

fn valid_chunk(rng: &mut Rng, start: bool, size: usize) -> Vec<u8> {
    let payload = rng.bytes(size);
    let rec = enc::ldm_record(&enc::bzip2_compress(&payload, 1), rng.chance(1, 2));
    if start {
        let mut f = enc::VolHeader::realistic(rng).encode().to_vec();
        f.extend_from_slice(&rec);
        f
    } else {
        rec
    }
}

fn run_download(obs: &mut Obs, rng: &mut Rng, idx: u64, big: usize) {
    run_download_with(obs, rng, idx, big, None)
}

fn run_download_with(obs: &mut Obs, rng: &mut Rng, idx: u64, big: usize, force_status: Option<u16>) {
    let sim = s3sim::global();
    let site = s3sim::fresh_site();
    let archive_mode = rng.chance(1, 2);
    let status = *rng.pick(&[200u16, 200, 200, 200, 404, 403, 500, 301, 0, 2001]); // 0 = object absent, 2001 = body cut short
    let status = force_status.unwrap_or(status);
    // Last-Modified: absent, in the past, or (a sixth) later than this machine's clock - minutes
    // ahead as with skewed clocks, or years ahead
    let lm = match rng.below(12) {
        0 => None,
        1 => Some(chrono::Utc::now().timestamp() + 60 * rng.range(2, 600) as i64),
        2 => Some(2_147_483_648 + rng.below(1_000_000_000) as i64),
        _ => Some(1_600_000_000 + rng.below(150_000_000) as i64),
    };
    let size = match rng.below(6) {
        0 => 0,
        1 => rng.usize_below(6),
        2 => big,
        _ => rng.usize_below(20_000),
    };
    let mut data = HashMap::new();
    let (key, bytes, well_formed_chunk);
    let mut asked_archive: Option<Identifier> = None;
    let mut asked_chunk: Option<ChunkIdentifier> = None;
    if archive_mode {
        // a third of the dates sit on year boundaries (29-31 December, 1-3 January), where a
        // week-based or otherwise shifted year differs from the calendar year
        let (y, m, d) = match rng.below(6) {
            0 => (rng.range(1995, 2030) as i64, 12u32, rng.range(29, 31) as u32),
            1 => (rng.range(1995, 2030) as i64, 1u32, rng.range(1, 3) as u32),
            _ => (rng.range(1995, 2030) as i64, rng.range(1, 12) as u32, rng.range(1, 28) as u32),
        };
        let mut name = format!("{}{:04}{:02}{:02}_{:02}{:02}{:02}_V06", site, y, m, d, rng.below(24), rng.below(60), rng.below(60));
        // a third of the names carry a suffix outside ASCII (or with a space): the key that
        // reaches the bucket, after URL decoding, must still be exactly YYYY/MM/DD/SITE/NAME
        if rng.chance(1, 3) {
            name.push_str(*rng.pick(&["_café", "_日本", "_naïve", "_\u{1F600}", " x", "_MDM", ".gz", "_Ünïcödé~"]));
        }
        key = format!("{:04}/{:02}/{:02}/{}/{}", y, m, d, site, name);
        bytes = rng.bytes(size);
        well_formed_chunk = true;
        asked_archive = Some(Identifier::new(name));
    } else {
        let vol = rng.urange(1, 999);
        let seq = rng.urange(1, 55);
        let name = format!("20240813-123330-{:03}-{}", seq, if seq == 1 { "S" } else if seq == 55 { "E" } else { "I" });
        key = format!("{}/{}/{}", site, vol, name);
        let kind = rng.below(5);
        well_formed_chunk = kind < 3;
        bytes = match kind {
            0 => valid_chunk(rng, true, size),
            1 | 2 => valid_chunk(rng, false, size),
            3 => rng.bytes(rng.clone().usize_below(6)), // 0..5 bytes
            _ => {
                let mut b = rng.bytes(size.max(8));
                b[0] = b'X';
                b[4] = b'Q';
                b
            }
        };
        // as when the identifier came from a listing made before the object was overwritten: it
        // carries a time of its own, which must not replace the download's Last-Modified
        let carried = match rng.below(3) {
            0 => None,
            _ => {
                use chrono::TimeZone;
                chrono::Utc.timestamp_opt(1_500_000_000 + rng.below(90_000_000) as i64, 0).single()
            }
        };
        asked_chunk = Some(ChunkIdentifier::new(site.clone(), VolumeIndex::new(vol), name, carried));
    }
    // (a body of fewer than three bytes cannot be cut after a third: served whole)
    let status = if status == 2001 && bytes.len() < 3 { 200 } else { status };
    if status != 0 {
        data.insert(key.clone(), Stored { bytes: bytes.clone(), last_modified_s: lm, status });
    }
    let scope = Arc::new(Mutex::new(Bucket { objs: vec![], data, list_mode: ListMode::Normal, log: vec![] }));
    sim.register(&site, scope.clone());
    obs.case(mix(mix(173, status as u64), mix(archive_mode as u64, mix(well_formed_chunk as u64, match size { 0 => 0, 1..=5 => 1, _ => 2 }))));
    enum Out {
        File(Vec<u8>),
        Chunk(ChunkIdentifier, Vec<u8>, bool),
    }
    // One download in five of a stored object has a second download of the same object in flight
    // beside it on the same runtime: both return the stored bytes.
    let twin = status == 200 && rng.chance(1, 5);
    let mut twin_bytes: Option<Result<Vec<u8>, String>> = None;
    let r = mon::catch(|| {
        if twin {
            if let Some(id) = asked_archive.clone() {
                let (a, b) = s3sim::block_on(false, async { tokio::join!(archive::download_file(id.clone()), archive::download_file(id.clone())) });
                twin_bytes = Some(b.map(|f| f.data().clone()).map_err(|e| format!("{e:?}")));
                return a.map(|f| Out::File(f.data().clone()));
            }
            let id = asked_chunk.clone().expect("chunk id");
            let (a, b) = s3sim::block_on(false, async { tokio::join!(realtime::download_chunk(&site, &id), realtime::download_chunk(&site, &id)) });
            twin_bytes = Some(b.map(|(_, c)| c.data().to_vec()).map_err(|e| format!("{e:?}")));
            return a.map(|(i, c)| {
                let start = matches!(c, Chunk::Start(_));
                Out::Chunk(i, c.data().to_vec(), start)
            });
        }
        if let Some(id) = asked_archive.clone() {
            s3sim::block_on(false, archive::download_file(id)).map(|f| Out::File(f.data().clone()))
        } else {
            let id = asked_chunk.clone().expect("chunk id");
            s3sim::block_on(false, realtime::download_chunk(&site, &id)).map(|(i, c)| {
                let start = matches!(c, Chunk::Start(_));
                Out::Chunk(i, c.data().to_vec(), start)
            })
        }
    });
    sim.unregister(&site);
    let log = scope.lock().map(|s| s.log.clone()).unwrap_or_default();
    let bucket = if archive_mode { ARCHIVE_BUCKET } else { REALTIME_BUCKET };
    let replay = json!({"scenario": if archive_mode { "archive-download" } else { "realtime-download" }, "index": idx, "key": key, "status": status, "object_len": bytes.len(),
        "last_modified_s": lm, "object_hex": crate::ev::hex(&bytes[..bytes.len().min(4096)]), "requests": log});
    // request shape: the statement names the key that is requested; every object request must be
    // for exactly that key and there must be at least one (how many is not the statement's business)
    let want_path = format!("/{}/{}", bucket, key);
    if log.is_empty() || log.iter().any(|l| s3sim::percent_decode(&l.0) != want_path) {
        obs.violation(
            if archive_mode { "archive download does not request the key YYYY/MM/DD/SITE/NAME" } else { "real-time download does not request the key SITE/VOLUME/NAME" },
            format!("expected GET {}, logged {:?}", want_path, log),
            replay.clone(),
        );
    }
    if let Some(tb) = &twin_bytes {
        match tb {
            Ok(b) if *b == bytes => obs.count("downloads_of_one_object_in_flight_at_once_byte_identical", 1),
            Ok(b) => obs.violation("downloaded bytes differ from the stored object when another download of it is in flight", format!("{} vs {} bytes", b.len(), bytes.len()), replay.clone()),
            Err(e) if e.contains("onnect") => {}
            Err(_) if !archive_mode && !well_formed_chunk => {}
            Err(e) => obs.violation("download of a stored object fails when another download of it is in flight", e.clone(), replay.clone()),
        }
    }
    if !twin {
        obs.max("requests_per_download", log.len() as u64);
    }
    if !key.is_ascii() {
        obs.count("downloads_of_keys_outside_ascii", 1);
    }
    match r {
        Err(p) => obs.violation(format!("download {}", p.signature()), format!("{} (object of {} bytes, status {})", p.message, bytes.len(), status), replay),
        Ok(Err(e)) if is_connect_error(&e) => obs.skipped_environment(format!("loopback connect failed: {e:?}")),
        Ok(res) => match (status, res) {
            (0, Err(Error::AWS(AWSError::S3ObjectNotFoundError))) | (404, Err(Error::AWS(AWSError::S3ObjectNotFoundError))) => obs.count("missing_object_is_not_found_error", 1),
            (0, other) | (404, other) => obs.violation("missing object is not mapped to the not-found error", format!("{:?}", other.map(|_| "Ok").map_err(|e| format!("{e:?}"))), replay),
            (200, Ok(Out::File(got))) => {
                if got != bytes {
                    obs.violation("downloaded archive bytes differ from the stored object", format!("{} vs {} bytes", got.len(), bytes.len()), replay);
                } else {
                    obs.count("downloads_byte_identical", 1);
                    obs.max("downloaded_object_bytes", bytes.len() as u64);
                }
            }
            (200, Ok(Out::Chunk(id, got, is_start))) => {
                let asked = asked_chunk.expect("asked");
                if !well_formed_chunk {
                    // neither an archive header nor a compressed record: the library may refuse it
                    // (it does) or hand it over; handed over, it must still be the stored bytes
                    obs.count("unrecognised_chunk_body_returned", 1);
                }
                if got != bytes {
                    obs.violation("downloaded chunk bytes differ from the stored object", format!("{} vs {} bytes", got.len(), bytes.len()), replay);
                } else if id.site() != asked.site() || id.volume() != asked.volume() || id.name() != asked.name() {
                    obs.violation("downloaded chunk is not labelled with the identifier asked for", format!("{:?}", id), replay);
                } else if id.date_time().map(|t| t.timestamp()) != lm {
                    obs.violation("downloaded chunk is not stamped with the object's Last-Modified", format!("header {:?}, identifier {:?}", lm, id.date_time()), replay);
                } else if well_formed_chunk && is_start != bytes.starts_with(b"AR2") {
                    obs.violation("chunk kind not determined by its leading bytes", "", replay);
                } else {
                    obs.count("downloads_byte_identical", 1);
                    obs.count("chunk_downloads_labelled_and_stamped", 1);
                    obs.max("downloaded_object_bytes", bytes.len() as u64);
                }
            }
            (200, Err(e)) => {
                if !archive_mode && !well_formed_chunk {
                    obs.count("unrecognised_chunk_body_is_error", 1);
                } else {
                    obs.violation("download of a stored object fails", format!("{e:?}"), replay);
                }
            }
            (2001, Ok(_)) => obs.violation("a download cut short of its Content-Length is returned as a success", format!("object of {} bytes, a third delivered", bytes.len()), replay),
            (2001, Err(_)) => obs.count("downloads_cut_short_reported_as_errors", 1),
            (_, Err(Error::AWS(AWSError::S3ObjectNotFoundError))) => obs.violation("non-404 status mapped to the not-found error", format!("status {}", status), replay),
            (_, Err(_)) => obs.count("other_status_is_error", 1),
            (s, Ok(_)) => obs.violation("non-200 status treated as success", format!("status {}", s), replay),
        },
    }
}

pub fn run(ctx: &mut Ctx) {
    ctx.rule = "a case is one scenario against the loopback S3 simulator (real reqwest client, endpoint hook): archive listing, real-time listing, garbled/errored listing, archive download, real-time download; \
distinct = distinct (scenario kind, object count class, key hostility, nesting, size validity, max-keys, status, object size class); oracle = identifiers one per object under the prefix in bucket order named by the final path segment and stamped with LastModified, truncated archive listing and unparsable size are errors, every object request is a GET of YYYY/MM/DD/SITE/NAME resp. SITE/VOLUME/NAME (listing request parameters are recorded, not judged), bytes identical, Last-Modified and identifier preserved, 404 => not-found error, other status => error, never a panic"
        .into();
    ctx.assumptions = vec![
        "the simulator answers like S3: entity-escaped text (never CDATA), compact and pretty-printed bodies, sibling elements Name/Prefix/KeyCount/MaxKeys/ETag/StorageClass, keys never whitespace-only".into(),
        "download keys are built from identifiers, so only URL-safe names are downloaded; XML-hostile characters are exercised in listings".into(),
    ];
    ctx.floor_evaluations = 50;
    let total: u64 = ctx.tier.pick(6_000, 200_000);
    let big = ctx.tier.pick(256 * 1024, 4 * 1024 * 1024);
    let seed = ctx.seed;
    // Before the parallel cases, while nothing else talks to the simulator: runs of downloads that
    // all fail on the server's side (500 / 503 / a body cut short), each run followed at once by
    // downloads of stored objects and of a missing one.  Whatever the failures left behind in the
    // process, the next download is answered on its own merits.
    {
        let mut obs = Obs::new();
        let mut rng = Rng::derive(seed, 17, u64::MAX);
        for burst in 0..ctx.tier.pick(3u64, 12u64) {
            for k in 0..(6 + burst % 5) {
                let st = *rng.pick(&[500u16, 503, 500, 2001]);
                run_download_with(&mut obs, &mut rng, 1_000_000 + burst * 100 + k, 2048, Some(st));
            }
            for k in 0..4 {
                let st = [200u16, 200, 0, 200][k as usize];
                run_download_with(&mut obs, &mut rng, 2_000_000 + burst * 100 + k, 2048, Some(st));
            }
            obs.count("runs_of_failed_downloads_followed_by_good_ones", 1);
        }
        ctx.obs.merge(obs);
    }
    par_cases(ctx, total, |i, obs| {
        let mut rng = Rng::derive(seed, 17, i);
        match i % 6 {
            0 => run_list_archive(obs, &mut rng, i),
            1 => run_list_realtime(obs, &mut rng, i),
            2 => run_list_garbled(obs, &mut rng, i),
            _ => run_download(obs, &mut rng, i, if i % 60 == 3 { big } else { 30_000 }),
        }
        if obs.want_sample() && i % 53 == 6 {
            let kind = ["archive-list", "realtime-list", "garbled-list", "download", "download", "download"][(i % 6) as usize];
            obs.sample(json!({"scenario_index": i, "kind": kind}));
        }
    });
    ctx.obs.count("simulator_unrouted_requests", s3sim::global().unrouted.load(std::sync::atomic::Ordering::SeqCst));
}
