//! C09 — Sweep grouping and merging conserve radials.

use crate::ev::Ctx;
use crate::mon;
use crate::rng::{mix, Rng};
use nexrad_model::data::{Radial, RadialStatus, Sweep};
use serde_json::json;

const STATUSES: [RadialStatus; 6] = [
    RadialStatus::ElevationStart,
    RadialStatus::IntermediateRadialData,
    RadialStatus::ElevationEnd,
    RadialStatus::VolumeScanStart,
    RadialStatus::VolumeScanEnd,
    RadialStatus::ElevationStartVCPFinal,
];

/// A radial whose identity is its unique collection timestamp.  Every other attribute (status,
/// angles, spacing) varies with the identity: grouping and merging must depend on the elevation
/// and azimuth *numbers* only.
pub fn mk_radial(id: i64, az_num: u16, elev: u8) -> Radial {
    let h = crate::rng::mix(id as u64, 0x5157);
    Radial::new(
        id,
        az_num,
        az_num as f32 * 0.5,
        if h & 8 == 0 { 0.5 } else { 1.0 },
        STATUSES[(h % 6) as usize],
        elev,
        elev as f32 * 0.1,
        None,
        None,
        None,
        None,
        None,
        None,
        None,
    )
}

/// Reference run-splitter: maximal runs of equal elevation number.
pub fn reference_runs(elevs: &[u8]) -> Vec<(u8, usize)> {
    let mut runs: Vec<(u8, usize)> = Vec::new();
    for &e in elevs {
        match runs.last_mut() {
            Some((le, n)) if *le == e => *n += 1,
            _ => runs.push((e, 1)),
        }
    }
    runs
}

/// How radial identities are assigned.  `Unique`: every radial differs from every other (a read
/// identifies the write it observed).  The other patterns put *equal* radials into the input
/// ("any sequence" includes retransmitted and repeated radials): conservation then shows in the
/// count and in the element-wise comparison.
#[derive(Clone, Copy, Debug, PartialEq)]
pub enum Ident {
    Unique,
    /// unique radials whose azimuth numbers do not follow input order
    UniqueScrambled,
    /// all radials of one elevation number are equal in every field
    PerElevation,
    /// a radial equals its predecessor (when that has the same elevation) with probability 1/2
    RepeatPrevious(u64),
    /// identities drawn from a pool of three per elevation: equal radials recur, not only adjacently
    SmallPool(u64),
}

fn identities(elevs: &[u8], ident: Ident) -> Vec<(i64, u16)> {
    let mut out: Vec<(i64, u16)> = Vec::with_capacity(elevs.len());
    for (i, &e) in elevs.iter().enumerate() {
        let unique = (1_000 + i as i64, (i % 720) as u16);
        let v = match ident {
            Ident::Unique => unique,
            Ident::UniqueScrambled => (1_000 + i as i64, ((i * 7919 + 13) % 1000) as u16),
            Ident::PerElevation => (e as i64, e as u16),
            Ident::RepeatPrevious(salt) => {
                if i > 0 && elevs[i - 1] == e && mix(salt, i as u64) & 1 == 0 {
                    out[i - 1]
                } else {
                    unique
                }
            }
            Ident::SmallPool(salt) => {
                let k = mix(salt, i as u64) % 3;
                (e as i64 * 10 + k as i64, k as u16)
            }
        };
        out.push(v);
    }
    out
}

fn check_grouping(ctx: &mut Ctx, elevs: &[u8], shape: u64) {
    check_grouping_ident(ctx, elevs, Ident::Unique, shape)
}

fn check_grouping_ident(ctx: &mut Ctx, elevs: &[u8], ident: Ident, shape: u64) {
    ctx.obs.case(shape);
    let ids = identities(elevs, ident);
    let radials: Vec<Radial> = elevs.iter().zip(ids.iter()).map(|(&e, &(id, az))| mk_radial(id, az, e)).collect();
    if ident != Ident::Unique && ident != Ident::UniqueScrambled {
        ctx.obs.count("groupings_with_equal_radials", 1);
    }
    let replay = json!({"op": "from_radials", "elevations": elevs, "identities": format!("{:?}", ident)});
    let sweeps = match mon::catch(|| Sweep::from_radials(radials.clone())) {
        Ok(s) => s,
        Err(p) => {
            ctx.obs.violation(
                format!("from_radials {}", p.signature()),
                p.message,
                replay,
            );
            return;
        }
    };
    let runs = reference_runs(elevs);
    let cls = |what: &str| -> String {
        // minimal input class: where in the sequence the discrepancy sits
        format!("from_radials {}", what)
    };
    // conservation: concatenation equals the input
    let got_ids: Vec<i64> = sweeps
        .iter()
        .flat_map(|s| s.radials().iter().map(|r| r.collection_timestamp()))
        .collect();
    let want_ids: Vec<i64> = radials.iter().map(|r| r.collection_timestamp()).collect();
    if got_ids != want_ids {
        let lost_tail = got_ids.len() < want_ids.len() && want_ids.starts_with(&got_ids);
        let sig = if lost_tail {
            // exactly the final run is missing?
            let last_run = runs.last().map(|r| r.1).unwrap_or(0);
            if want_ids.len() - got_ids.len() == last_run {
                cls("drops the final run")
            } else {
                cls("drops a tail of radials")
            }
        } else if got_ids.len() > want_ids.len() {
            cls("duplicates radials")
        } else {
            cls("loses or reorders radials")
        };
        ctx.obs.violation(
            sig,
            format!(
                "input {} radials in runs {:?}; sweeps hold {} radials (ids {:?}...)",
                want_ids.len(),
                runs,
                got_ids.len(),
                &got_ids[..got_ids.len().min(8)]
            ),
            replay,
        );
        return;
    }
    if sweeps.len() != runs.len() {
        ctx.obs.violation(
            cls("wrong sweep count"),
            format!("expected {} sweeps {:?}, observed {}", runs.len(), runs, sweeps.len()),
            replay,
        );
        return;
    }
    for (i, (s, (e, n))) in sweeps.iter().zip(runs.iter()).enumerate() {
        if s.radials().is_empty() {
            ctx.obs.violation(cls("empty sweep"), format!("sweep {} is empty", i), replay.clone());
            return;
        }
        if s.elevation_number() != *e || s.radials().len() != *n {
            ctx.obs.violation(
                cls("wrong run boundary or label"),
                format!(
                    "sweep {}: expected elevation {} x{}, observed elevation {} x{}",
                    i,
                    e,
                    n,
                    s.elevation_number(),
                    s.radials().len()
                ),
                replay.clone(),
            );
            return;
        }
        if s.radials().iter().any(|r| r.elevation_number() != *e) {
            ctx.obs.violation(
                cls("sweep holds a radial of another elevation"),
                format!("sweep {}", i),
                replay.clone(),
            );
            return;
        }
        if i > 0 && sweeps[i - 1].elevation_number() == s.elevation_number() {
            ctx.obs.violation(
                cls("adjacent sweeps share an elevation number"),
                format!("sweeps {} and {}", i - 1, i),
                replay.clone(),
            );
            return;
        }
    }
    // radials unaltered
    let flat: Vec<&Radial> = sweeps.iter().flat_map(|s| s.radials().iter()).collect();
    if flat.iter().zip(radials.iter()).any(|(a, b)| **a != *b || crate::volgen::radial_fingerprint(a) != crate::volgen::radial_fingerprint(b)) {
        ctx.obs.violation(cls("alters a radial"), "element-wise comparison failed", replay);
        return;
    }
    ctx.obs.count("groupings_equal_to_reference", 1);
    ctx.obs.count("radials_conserved", want_ids.len() as u64);
}

fn check_merge(ctx: &mut Ctx, e1: u8, az1: &[u16], e2: u8, az2: &[u16], shape: u64) {
    check_merge_ident(ctx, e1, az1, e2, az2, false, shape)
}

/// `equal_radials`: a radial's identity is its azimuth number alone, so radials with the same
/// azimuth number are equal in every field, within a sweep and across the two sweeps.
fn check_merge_ident(ctx: &mut Ctx, e1: u8, az1: &[u16], e2: u8, az2: &[u16], equal_radials: bool, shape: u64) {
    ctx.obs.case(shape);
    let a: Vec<Radial> = az1
        .iter()
        .enumerate()
        .map(|(i, &z)| mk_radial(if equal_radials { z as i64 } else { 30_000 + (i as i64 * 7919) % 10_007 }, z, e1))
        .collect();
    let b: Vec<Radial> = az2
        .iter()
        .enumerate()
        .map(|(i, &z)| mk_radial(if equal_radials { z as i64 } else { 20_007 - (i as i64 * 7919) % 10_007 }, z, e2))
        .collect();
    if equal_radials {
        ctx.obs.count("merges_with_equal_radials", 1);
    }
    let replay = json!({"op": "merge", "equal_radials": equal_radials, "first": {"elevation": e1, "azimuths": az1}, "second": {"elevation": e2, "azimuths": az2}});
    let s1 = Sweep::new(e1, a.clone());
    let s2 = Sweep::new(e2, b.clone());
    // (every other merge is made from clones of the two sweeps)
    let (s1, s2) = if shape % 2 == 0 { (s1.clone(), s2.clone()) } else { (s1, s2) };
    let r = match mon::catch(|| s1.merge(s2)) {
        Ok(r) => r,
        Err(p) => {
            ctx.obs
                .violation(format!("merge {}", p.signature()), p.message, replay);
            return;
        }
    };
    if e1 != e2 {
        if r.is_ok() {
            ctx.obs.violation(
                "merge accepts different elevation numbers",
                format!("elevations {} and {} merged", e1, e2),
                replay,
            );
        } else {
            ctx.obs.count("merge_mismatch_rejected", 1);
        }
        return;
    }
    let merged = match r {
        Ok(m) => m,
        Err(e) => {
            ctx.obs.violation(
                "merge rejects equal elevation numbers",
                format!("{e:?}"),
                replay,
            );
            return;
        }
    };
    // reference: stable sort by azimuth number of first ++ second
    let mut want: Vec<(u16, i64)> = a
        .iter()
        .chain(b.iter())
        .map(|r| (r.azimuth_number(), r.collection_timestamp()))
        .collect();
    want.sort_by_key(|x| x.0); // std stable sort
    let got: Vec<(u16, i64)> = merged
        .radials()
        .iter()
        .map(|r| (r.azimuth_number(), r.collection_timestamp()))
        .collect();
    if merged.elevation_number() != e1 {
        ctx.obs.violation("merge changes the elevation number", "", replay);
        return;
    }
    if got != want {
        let mut gs: Vec<i64> = got.iter().map(|x| x.1).collect();
        let mut ws: Vec<i64> = want.iter().map(|x| x.1).collect();
        gs.sort();
        ws.sort();
        let sig = if gs != ws {
            "merge loses or duplicates radials"
        } else if got.windows(2).all(|w| w[0].0 <= w[1].0) {
            "merge orders ties not first-then-second"
        } else {
            "merge result not ordered by azimuth number"
        };
        ctx.obs.violation(
            sig,
            format!("expected {:?}, observed {:?}", want, got),
            replay,
        );
        return;
    }
    // unaltered: the merged radials are, element-wise, the stable sort of first ++ second
    let mut want_r: Vec<&Radial> = a.iter().chain(b.iter()).collect();
    want_r.sort_by_key(|r| r.azimuth_number());
    if merged.radials().len() != want_r.len() || merged.radials().iter().zip(want_r.iter()).any(|(g, w)| g != *w || crate::volgen::radial_fingerprint(g) != crate::volgen::radial_fingerprint(w)) {
        ctx.obs.violation("merge alters a radial", "element-wise comparison failed", replay);
        return;
    }
    ctx.obs.count("merges_equal_to_reference", 1);
}

/// Merges of merges: `(a + b) + (c + d)` and `(a + b) + c`.  A merged sweep is a sweep like any
/// other; the result must again be the stable sort of left ++ right (ties: left's radials first).
fn check_nested_merge(ctx: &mut Ctx, e: u8, lists: [&[u16]; 4], shape: u64) {
    ctx.obs.case(shape);
    let mk = |base: i64, az: &[u16]| -> Vec<Radial> { az.iter().enumerate().map(|(i, &z)| mk_radial(base + i as i64, z, e)).collect() };
    // collection times do not follow operand order: the later operands are the older ones
    let (a, b, c, d) = (mk(40_000, lists[0]), mk(20_000, lists[1]), mk(30_000, lists[2]), mk(10_000, lists[3]));
    let replay = json!({"op": "merge of merges", "elevation": e, "a": lists[0], "b": lists[1], "c": lists[2], "d": lists[3]});
    let r = mon::catch(|| {
        let ab = Sweep::new(e, a.clone()).merge(Sweep::new(e, b.clone()))?;
        let cd = Sweep::new(e, c.clone()).merge(Sweep::new(e, d.clone()))?;
        let abc = ab.clone().merge(Sweep::new(e, c.clone()))?;
        let abcd = ab.merge(cd)?;
        Ok::<_, nexrad_model::result::Error>((abc, abcd))
    });
    let (abc, abcd) = match r {
        Ok(Ok(x)) => x,
        Ok(Err(err)) => {
            ctx.obs.violation("merge rejects equal elevation numbers", format!("{err:?} (merge of merges)"), replay);
            return;
        }
        Err(p) => {
            ctx.obs.violation(format!("merge {}", p.signature()), p.message, replay);
            return;
        }
    };
    let ids = |v: &[Radial]| -> Vec<(u16, i64)> { v.iter().map(|r| (r.azimuth_number(), r.collection_timestamp())).collect() };
    let stable = |parts: &[&Vec<Radial>]| -> Vec<(u16, i64)> {
        let mut w: Vec<(u16, i64)> = parts.iter().flat_map(|p| ids(p)).collect();
        w.sort_by_key(|x| x.0);
        w
    };
    for (name, got, want) in [("(a+b)+c", ids(abc.radials()), stable(&[&a, &b, &c])), ("(a+b)+(c+d)", ids(abcd.radials()), stable(&[&a, &b, &c, &d]))] {
        if got != want {
            let mut gs: Vec<i64> = got.iter().map(|x| x.1).collect();
            let mut ws: Vec<i64> = want.iter().map(|x| x.1).collect();
            gs.sort();
            ws.sort();
            let sig = if gs != ws {
                "merge loses or duplicates radials"
            } else if got.windows(2).all(|w| w[0].0 <= w[1].0) {
                "merge orders ties not first-then-second"
            } else {
                "merge result not ordered by azimuth number"
            };
            ctx.obs.violation(sig, format!("{}: expected {:?}, observed {:?}", name, want, got), replay);
            return;
        }
    }
    ctx.obs.count("merges_of_merges_equal_to_reference", 1);
}

pub fn run(ctx: &mut Ctx) {
    ctx.rule = "grouping: one case per elevation sequence and identity pattern (every radial unique, or equal radials adjacent / recurring / all equal per elevation); merge: one case per ordered pair of azimuth lists; \
distinct = distinct elevation strings / azimuth-list pairs; oracle = 10-line reference run-splitter and std stable sort of first++second"
        .into();
    ctx.exhaustive = Some("every elevation string of length 0..=8 over {1,2,3} (9,841) under four identity patterns; every pair of azimuth lists of length <= 3 over {1,2,3} (1,600 pairs) for equal and unequal elevations; every quadruple of lists of length <= 2 over {1,2} merged as (a+b)+c and (a+b)+(c+d)".into());
    ctx.floor_evaluations = 10_000;
    let mut rng = Rng::derive(ctx.seed, 9, 0);

    // exhaustive grouping, length 0..=8 over {1,2,3}
    for len in 0..=8usize {
        let total = 3usize.pow(len as u32);
        for code in 0..total {
            let mut c = code;
            let elevs: Vec<u8> = (0..len)
                .map(|_| {
                    let v = (c % 3) as u8 + 1;
                    c /= 3;
                    v
                })
                .collect();
            if len == 0 {
                ctx.obs.case_trivial();
                let s = mon::catch(|| Sweep::from_radials(Vec::new()));
                match s {
                    Ok(v) if v.is_empty() => ctx.obs.count("empty_input_gives_no_sweeps", 1),
                    Ok(v) => ctx.obs.violation(
                        "from_radials empty input gives sweeps",
                        format!("{} sweeps", v.len()),
                        json!({"op":"from_radials","elevations":[]}),
                    ),
                    Err(p) => ctx.obs.violation(format!("from_radials {}", p.signature()), p.message, json!({})),
                }
                continue;
            }
            check_grouping(ctx, &elevs, mix(1, mix(len as u64, code as u64)));
            check_grouping_ident(ctx, &elevs, Ident::PerElevation, mix(11, mix(len as u64, code as u64)));
            check_grouping_ident(ctx, &elevs, Ident::UniqueScrambled, mix(13, mix(len as u64, code as u64)));
            check_grouping_ident(ctx, &elevs, Ident::RepeatPrevious(code as u64), mix(12, mix(len as u64, code as u64)));
            if ctx.obs.want_sample() && len == 4 && code % 20 == 7 {
                ctx.obs.sample(json!({"op": "from_radials", "elevations": elevs, "expected_runs": reference_runs(&elevs)}));
            }
        }
    }

    // exhaustive merge: all pairs of azimuth lists of length <= 3 over {1,2,3}
    let mut lists: Vec<Vec<u16>> = vec![vec![]];
    for len in 1..=3usize {
        for code in 0..3usize.pow(len as u32) {
            let mut c = code;
            lists.push(
                (0..len)
                    .map(|_| {
                        let v = (c % 3) as u16 + 1;
                        c /= 3;
                        v
                    })
                    .collect(),
            );
        }
    }
    for (i, a) in lists.iter().enumerate() {
        for (j, b) in lists.iter().enumerate() {
            check_merge(ctx, 3, a, 3, b, mix(2, mix(i as u64, j as u64)));
            check_merge_ident(ctx, 3, a, 3, b, true, mix(22, mix(i as u64, j as u64)));
            check_merge(ctx, 3, a, 4, b, mix(3, mix(i as u64, j as u64)));
            if ctx.obs.samples.len() < 4 && i == 17 && j == 5 {
                ctx.obs.sample(json!({"op": "merge", "first": a, "second": b}));
            }
        }
    }

    // small-scope merges of merges: every quadruple of azimuth lists of length <= 2 over {1,2}
    {
        let small: Vec<Vec<u16>> = vec![vec![], vec![1], vec![2], vec![1, 1], vec![1, 2], vec![2, 1], vec![2, 2]];
        for (i, a) in small.iter().enumerate() {
            for (j, b) in small.iter().enumerate() {
                for (k, c) in small.iter().enumerate() {
                    for (l, d) in small.iter().enumerate() {
                        check_nested_merge(ctx, 7, [a, b, c, d], mix(23, ((i * 7 + j) * 7 + k) as u64 * 7 + l as u64));
                    }
                }
            }
        }
    }

    // random grouping
    let n = ctx.tier.pick(20_000, 400_000);
    for i in 0..n {
        if i % 128 == 1 {
            crate::props::poison::run(i as u64);
        }
        if ctx.out_of_time() {
            break;
        }
        let len = match rng.below(6) {
            0 => 1,
            1 => rng.urange(2, 10),
            2 => 2000,
            _ => rng.urange(1, 2000),
        };
        let mode = rng.below(5);
        let mut elevs = Vec::with_capacity(len);
        let mut cur = rng.u8();
        for _ in 0..len {
            match mode {
                0 => {}                         // all one run
                1 => cur = rng.u8(),            // runs of length ~1, any 0..=255
                2 => {
                    if rng.chance(1, 360) {
                        cur = cur.wrapping_add(1)
                    }
                }
                3 => {
                    if rng.chance(1, 3) {
                        cur = *rng.pick(&[0u8, 1, 2, 254, 255])
                    }
                }
                _ => {
                    if rng.chance(1, 20) {
                        cur = rng.below(4) as u8 // SAILS-like repeats
                    }
                }
            }
            elevs.push(cur);
        }
        let runs = reference_runs(&elevs);
        let shape = mix(
            4,
            mix(
                runs.len() as u64,
                mix(len as u64, runs.last().map(|r| r.1).unwrap_or(0) as u64),
            ),
        );
        let ident = match i % 4 {
            0 => Ident::RepeatPrevious(i),
            1 => Ident::SmallPool(i),
            2 => Ident::UniqueScrambled,
            _ => Ident::Unique,
        };
        check_grouping_ident(ctx, &elevs, ident, mix(shape, i));
        // every third list is followed at once by a *look-alike*: same length or a little longer,
        // the very same radials at both ends of the previous list (and the same identities
        // throughout), other elevation numbers in between - a different input that anything
        // sampling a list at a few places would take for the previous one, or for its extension
        if i % 3 == 0 && elevs.len() >= 3 {
            let mut other = elevs.clone();
            let last = other.len() - 1;
            let changes = 1 + rng.usize_below((other.len() / 8).max(1));
            for _ in 0..changes {
                let p = 1 + rng.usize_below(last - 1);
                other[p] = match rng.below(3) {
                    0 => other[p - 1],
                    1 => other[p].wrapping_add(1),
                    _ => rng.u8(),
                };
            }
            if rng.chance(1, 2) {
                let extra = rng.urange(1, 12);
                let mut cur = *other.last().unwrap_or(&0);
                for _ in 0..extra {
                    if rng.chance(1, 3) {
                        cur = cur.wrapping_add(1);
                    }
                    other.push(cur);
                }
            }
            ctx.obs.count("look_alike_lists_after_the_previous_one", 1);
            check_grouping_ident(ctx, &other, if matches!(ident, Ident::UniqueScrambled) { ident } else { Ident::Unique }, mix(shape ^ 0x51b, i));
        }
    }

    // one merge of more than 65,536 radials (and one of exactly that many): positions in the
    // combined list no longer fit sixteen bits
    for (la, lb, tag) in [(40_000usize, 30_000usize, 70u64), (32_768, 32_768, 65), (65_535, 2, 66)] {
        if ctx.shadow && tag != 70 {
            continue;
        }
        let a: Vec<u16> = (0..la).map(|_| rng.range(1, 720) as u16).collect();
        let b: Vec<u16> = (0..lb).map(|_| rng.range(1, 720) as u16).collect();
        check_merge_ident(ctx, 5, &a, 5, &b, false, mix(0xb16, tag));
        ctx.obs.count("merges_of_tens_of_thousands_of_radials", 1);
    }

    // The same two layouts merged again and again by one thread while every other worker thread
    // does the same with layouts of its own (all of one combined length): what a library remembers
    // from the merge before is asked for again at once, and other threads' merges are in between.
    {
        let seed = ctx.seed;
        let hot: u64 = ctx.tier.pick(3_000, 60_000);
        crate::ev::par_cases(ctx, hot, move |i, obs| {
            let mut rng = Rng::derive(seed, 99, i);
            let la = rng.urange(0, 40);
            let a: Vec<u16> = (0..la).map(|_| rng.below(12) as u16).collect();
            let b: Vec<u16> = (0..40 - la).map(|_| rng.below(12) as u16).collect();
            // expected: stable sort by azimuth number of first || second, identified by timestamp
            let mut want: Vec<(u16, i64)> = a.iter().enumerate().map(|(k, z)| (*z, 1_000 + k as i64)).chain(b.iter().enumerate().map(|(k, z)| (*z, 2_000 + k as i64))).collect();
            want.sort_by_key(|x| x.0);
            obs.case(mix(0x909, i));
            for pass in 0..8 {
                let s1 = Sweep::new(7, a.iter().enumerate().map(|(k, z)| mk_radial(1_000 + k as i64, *z, 7)).collect());
                let s2 = Sweep::new(7, b.iter().enumerate().map(|(k, z)| mk_radial(2_000 + k as i64, *z, 7)).collect());
                let replay = json!({"op": "merge repeated on all worker threads", "index": i, "pass": pass, "first": a, "second": b});
                match mon::catch(|| s1.merge(s2)) {
                    Err(p) => {
                        obs.violation(format!("merge {}", p.signature()), p.message, replay);
                        return;
                    }
                    Ok(Err(e)) => {
                        obs.violation("merge of equal elevation numbers refused", format!("{e:?}"), replay);
                        return;
                    }
                    Ok(Ok(m)) => {
                        let got: Vec<(u16, i64)> = m.radials().iter().map(|r| (r.azimuth_number(), r.collection_timestamp())).collect();
                        if got != want {
                            let sig = if got.len() != want.len() { "merge loses or duplicates radials" } else if got.windows(2).any(|w| w[0].0 > w[1].0) { "merge result not ordered by azimuth number" } else { "merge orders ties not first-then-second" };
                            obs.violation(sig, format!("pass {} of the same merge repeated on all worker threads: expected {:?}, observed {:?}", pass, want, got), replay);
                            return;
                        }
                    }
                }
            }
            obs.count("merges_repeated_on_all_worker_threads_exact", 8);
        });
    }

    // random merge
    let n = ctx.tier.pick(20_000, 400_000);
    for i in 0..n {
        if i % 128 == 1 {
            crate::props::poison::run(i as u64);
        }
        if ctx.out_of_time() {
            break;
        }
        let la = rng.urange(0, 400);
        let lb = rng.urange(0, 400);
        let span = *rng.pick(&[1u64, 3, 10, 720, 65_535]);
        // the ends of the number's wire type are azimuth numbers like any other
        let edge = i % 5 == 0;
        let draw = |rng: &mut Rng| -> u16 { if edge && rng.chance(1, 8) { *rng.pick(&[0u16, 1, 65_534, 65_535]) } else { rng.below(span + 1) as u16 } };
        let a: Vec<u16> = (0..la).map(|_| draw(&mut rng)).collect();
        let b: Vec<u16> = (0..lb).map(|_| draw(&mut rng)).collect();
        let e1 = rng.u8();
        let e2 = if rng.chance(3, 4) { e1 } else { rng.u8() };
        check_merge_ident(ctx, e1, &a, e2, &b, i % 4 == 0, mix(5, i));
        if i % 4 == 1 {
            // the same lists cut in four: merges of merges, with ties across every part
            let (a1, a2) = a.split_at(a.len() / 2);
            let (b1, b2) = b.split_at(b.len() / 2);
            check_nested_merge(ctx, e1, [a1, b1, a2, b2], mix(6, i));
        }
    }
}
