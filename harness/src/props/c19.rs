//! C19 — Chunk-to-elevation mapping and next-chunk time estimates follow the VCP.

use crate::enc::gen_vcp;
use crate::ev::{Ctx, Obs};
use crate::mon;
use crate::rng::{mix, Rng};
use chrono::{DateTime, Duration, TimeZone, Utc};
use nexrad_data::aws::realtime::{
    estimate_next_chunk_time, get_elevation_from_chunk, ChunkCharacteristics, ChunkIdentifier,
    ChunkTimingStats, ChunkType, VolumeIndex,
};
use nexrad_decode::messages::volume_coverage_pattern::{
    decode_volume_coverage_pattern, ChannelConfiguration, Message, WaveformType,
};
use serde_json::json;
use std::collections::{HashMap, VecDeque};

/// Build a real VCP message whose cut c has (half_degree, waveform code, channel code) as given
/// and elevation_angle raw == c (identity).
fn vcp_with(rng: &mut Rng, cuts: &[(bool, u8, u8)]) -> Message {
    let mut v = gen_vcp(rng, cuts.len());
    for (i, (half, wf, ch)) in cuts.iter().enumerate() {
        let c = &mut v.cuts[i];
        c.angle = (i as u16) << 3;
        c.super_res = (c.super_res & !1) | (*half as u8);
        c.waveform = *wf;
        c.channel = *ch;
    }
    let body = v.encode();
    decode_volume_coverage_pattern(&mut &body[..]).expect("harness VCP decodes")
}

/// Reference mapping: index of the cut a chunk sequence belongs to.
fn reference_cut(seq: usize, cuts: &[(bool, u8, u8)]) -> Option<usize> {
    if seq <= 1 {
        return None;
    }
    let mut first = 2usize;
    for (i, (half, _, _)) in cuts.iter().enumerate() {
        let w = if *half { 6 } else { 3 };
        if seq >= first && seq < first + w {
            return Some(i);
        }
        first += w;
    }
    None
}

fn check_mapping(obs: &mut Obs, msg: &Message, cuts: &[(bool, u8, u8)], shape: u64) {
    obs.case(shape);
    let replay = json!({"half_degree_pattern": cuts.iter().map(|c| c.0).collect::<Vec<_>>()});
    let mut last: Option<usize> = None;
    for seq in 1..=200usize {
        let got = match mon::catch(|| {
            get_elevation_from_chunk(seq, &msg.elevations)
                .map(|e| msg.elevations.iter().position(|x| std::ptr::eq(x, e)).unwrap_or(usize::MAX))
        }) {
            Ok(g) => g,
            Err(p) => {
                obs.violation(format!("get_elevation_from_chunk {}", p.signature()), p.message, replay);
                return;
            }
        };
        let want = reference_cut(seq, cuts);
        if got != want {
            let sig = if seq == 1 {
                "chunk 1 maps to a cut"
            } else if want.is_none() {
                "chunk beyond the last cut maps to a cut"
            } else {
                "chunk maps to the wrong cut"
            };
            obs.violation(
                sig,
                format!("sequence {}: expected cut {:?}, observed {:?} (pattern {:?})", seq, want, got, cuts.iter().map(|c| c.0 as u8).collect::<Vec<_>>()),
                replay,
            );
            return;
        }
        if let (Some(a), Some(b)) = (last, got) {
            if b < a {
                obs.violation("mapping is not monotone", format!("sequence {}", seq), replay);
                return;
            }
        }
        if got.is_some() {
            last = got;
        }
    }
    obs.count("cut_lists_mapped_exactly", 1);
    obs.count("sequence_to_cut_evaluations", 200);
}

fn waveform_of(code: u8) -> WaveformType {
    match code {
        1 => WaveformType::CS,
        2 => WaveformType::CDW,
        3 => WaveformType::CDWO,
        4 => WaveformType::B,
        5 => WaveformType::SPP,
        _ => WaveformType::Unknown,
    }
}
fn channel_of(code: u8) -> ChannelConfiguration {
    match code {
        0 => ChannelConfiguration::ConstantPhase,
        1 => ChannelConfiguration::RandomPhase,
        2 => ChannelConfiguration::SZ2Phase,
        _ => ChannelConfiguration::UnknownPhase,
    }
}

type Key = (u8, u8, u8); // (chunk type 0/1/2, waveform class, channel class)

fn key_of(t: ChunkType, wf: u8, ch: u8) -> Key {
    let tt = match t {
        ChunkType::Start => 0,
        ChunkType::Intermediate => 1,
        ChunkType::End => 2,
    };
    (tt, if (1..=5).contains(&wf) { wf } else { 0 }, if ch <= 2 { ch } else { 3 })
}

fn chunk_id(prefix: &str, seq: usize, time: Option<DateTime<Utc>>) -> ChunkIdentifier {
    ChunkIdentifier::new(
        "KDMX".into(),
        VolumeIndex::new(7),
        format!("{}-{:03}-{}", prefix, seq, match seq { 1 => "S", 55 => "E", _ => "I" }),
        time,
    )
}

struct Model {
    windows: HashMap<Key, VecDeque<(i64, usize)>>,
}

impl Model {
    fn add(&mut self, k: Key, ms: i64, attempts: usize) {
        let w = self.windows.entry(k).or_default();
        w.push_back((ms, attempts));
        while w.len() > 10 {
            w.pop_front();
        }
    }
    /// (sum of ms, sum of attempts, n) over the window.
    fn sums(&self, k: &Key) -> Option<(i64, usize, usize)> {
        self.windows.get(k).filter(|w| !w.is_empty()).map(|w| {
            (w.iter().map(|x| x.0).sum(), w.iter().map(|x| x.1).sum(), w.len())
        })
    }
}

#[allow(clippy::too_many_arguments)]
fn check_estimate(
    obs: &mut Obs,
    msg: &Message,
    cuts: &[(bool, u8, u8)],
    stats: Option<&ChunkTimingStats>,
    model: &Model,
    prev_seq: usize,
    upload: Option<DateTime<Utc>>,
    shape: u64,
) {
    obs.case(shape);
    let prev = chunk_id("20240813-123330", prev_seq, upload);
    let replay = json!({"previous_sequence": prev_seq, "upload_time": upload.map(|t| t.timestamp_millis()),
        "cuts": cuts.iter().map(|c| json!([c.0, c.1, c.2])).collect::<Vec<_>>(),
        "history": model.windows.iter().map(|(k, w)| json!({"key": [k.0, k.1, k.2], "window": w.iter().collect::<Vec<_>>()})).collect::<Vec<_>>(),
        "with_stats": stats.is_some()});
    let before = Utc::now();
    let got = match mon::catch(|| estimate_next_chunk_time(&prev, msg, stats)) {
        Ok(g) => g,
        Err(p) => {
            obs.violation(format!("estimate_next_chunk_time {}", p.signature()), p.message, replay);
            return;
        }
    };
    let after = Utc::now();
    // expected wait band in ms (lo, hi), or None
    let band: Option<(i64, i64, &str)> = if !(1..=55).contains(&prev_seq) {
        None
    } else if prev_seq == 55 {
        Some((10_000, 10_000, "after an end chunk"))
    } else {
        match reference_cut(prev_seq + 1, cuts) {
            None => None,
            Some(ci) => {
                let (_, wf, ch) = cuts[ci];
                let t = if prev_seq + 1 == 55 { ChunkType::End } else { ChunkType::Intermediate };
                let k = key_of(t, wf, ch);
                match (stats.is_some(), model.sums(&k)) {
                    (true, Some((sum_ms, sum_a, n))) => {
                        let n = n as i64;
                        let lo_d = sum_ms.div_euclid(n);
                        let hi_d = if sum_ms.rem_euclid(n) == 0 { lo_d } else { lo_d + 1 };
                        let lo_a = (sum_a as i64).div_euclid(n);
                        let hi_a = if (sum_a as i64).rem_euclid(n) == 0 { lo_a } else { lo_a + 1 };
                        Some((lo_d + (lo_a - 1) * 1000, hi_d + (hi_a - 1) * 1000, "history"))
                    }
                    _ => {
                        let d = if wf == 1 {
                            11_000
                        } else if ch == 0 {
                            7_000
                        } else {
                            4_000
                        };
                        Some((d, d, "default"))
                    }
                }
            }
        }
    };
    match (band, got) {
        (None, None) => obs.count("estimates_none_as_specified", 1),
        (None, Some(g)) => obs.violation(
            "estimate given where none is specified",
            format!("previous sequence {}: {:?}", prev_seq, g),
            replay,
        ),
        (Some((_, _, why)), None) => obs.violation(
            format!("no estimate where one is specified ({})", why),
            format!("previous sequence {}", prev_seq),
            replay,
        ),
        (Some((lo, hi, why)), Some(g)) => {
            let (base_lo, base_hi) = match upload {
                Some(t) => (t, t),
                None => (before, after),
            };
            let ok = g >= base_lo + Duration::milliseconds(lo) && g <= base_hi + Duration::milliseconds(hi);
            if !ok {
                obs.violation(
                    format!("estimate differs from upload time + specified wait ({})", why),
                    format!(
                        "previous sequence {}: wait band [{}, {}] ms, observed wait {} ms",
                        prev_seq,
                        lo,
                        hi,
                        g.signed_duration_since(base_lo).num_milliseconds()
                    ),
                    replay,
                );
                return;
            }
            if g < base_lo {
                obs.violation("estimate earlier than the previous upload time", format!("{:?} < {:?}", g, base_lo), replay);
                return;
            }
            obs.count(&format!("estimates_exact_{}", why.replace(' ', "_")), 1);
        }
    }
}

fn check_statistics(obs: &mut Obs, stats: &ChunkTimingStats, model: &Model, keymap: &HashMap<Key, ChunkCharacteristics>) {
    let got = match mon::catch(|| stats.get_statistics()) {
        Ok(g) => g,
        Err(p) => {
            obs.violation(format!("get_statistics {}", p.signature()), p.message, json!({}));
            return;
        }
    };
    let nonempty = model.windows.values().filter(|w| !w.is_empty()).count();
    if got.len() != nonempty {
        obs.violation("get_statistics lists a different set of keys", format!("expected {}, observed {}", nonempty, got.len()), json!({}));
        return;
    }
    for (k, w) in &model.windows {
        let Some(ch) = keymap.get(k) else { continue };
        let Some((_, d, a)) = got.iter().find(|(c, _, _)| c == ch) else {
            obs.violation("get_statistics misses a key with history", format!("{:?}", k), json!({}));
            return;
        };
        let n = w.len() as i64;
        let sum_ms: i64 = w.iter().map(|x| x.0).sum();
        let sum_a: usize = w.iter().map(|x| x.1).sum();
        let d_ok = d.map(|d| d.num_milliseconds()).map(|m| m >= sum_ms.div_euclid(n) && m <= sum_ms.div_euclid(n) + 1).unwrap_or(false);
        let a_ok = a.map(|a| (a - sum_a as f64 / n as f64).abs() < 1e-9).unwrap_or(false);
        if !d_ok || !a_ok {
            obs.violation(
                "get_statistics means differ from the last-ten window",
                format!("key {:?}: window {:?}, observed ({:?}, {:?})", k, w, d.map(|d| d.num_milliseconds()), a),
                json!({"key": [k.0, k.1, k.2], "window": w.iter().collect::<Vec<_>>()}),
            );
            return;
        }
    }
    obs.count("statistics_equal_to_window_model", 1);
}

pub fn run(ctx: &mut Ctx) {
    ctx.rule = "mapping: one case per VCP cut list (real decoded VCP message) evaluated on sequences 1..=200; estimates: one case per (cut list, recorded history prefix, previous sequence, with/without upload time, with/without statistics); \
distinct = distinct resolution patterns / (history length, key set, sequence, flags); oracle = prefix-sum mapping (6 chunks per half-degree cut, else 3), 10-line VecDeque rolling-window model, wait = 10 s after an end chunk, mean duration + (mean attempts - 1) s within the rounding band of both means, else 11/7/4 s"
        .into();
    ctx.exhaustive = Some("all 2,047 resolution patterns of 0..=10 cuts x sequences 1..=200; previous sequences 0..=60 for every queried history prefix".into());
    ctx.assumptions = vec!["the mean-based wait is accepted anywhere in [floor, ceil] of the mean duration (ms) and of the mean attempt count (the statement does not fix the rounding)".into()];
    ctx.floor_evaluations = 5_000;
    let seed = ctx.seed;
    let mut rng = Rng::derive(seed, 19, 0);

    // ---- mapping: exhaustive resolution patterns for 0..=10 cuts ------------------------------------------
    for n in 0..=10usize {
        for pat in 0..(1usize << n) {
            let cuts: Vec<(bool, u8, u8)> = (0..n)
                .map(|i| (pat >> i & 1 == 1, rng.below(7) as u8, rng.below(4) as u8))
                .collect();
            let msg = vcp_with(&mut rng, &cuts);
            check_mapping(&mut ctx.obs, &msg, &cuts, mix(190, mix(n as u64, pat as u64)));
        }
    }
    let n_rand = ctx.tier.pick(10_000, 400_000);
    for i in 0..n_rand {
        if i % 128 == 1 {
            crate::props::poison::run(i as u64);
        }
        let n = rng.urange(0, 32);
        let cuts: Vec<(bool, u8, u8)> = (0..n).map(|_| (rng.chance(1, 2), rng.below(7) as u8, rng.below(4) as u8)).collect();
        let msg = vcp_with(&mut rng, &cuts);
        check_mapping(&mut ctx.obs, &msg, &cuts, mix(191, i));
        if ctx.obs.want_sample() && i % 301 == 0 {
            ctx.obs.sample(json!({"kind": "mapping", "cuts_half_degree": cuts.iter().map(|c| c.0).collect::<Vec<_>>(),
                "expected_first_sequences": (1..=12).map(|s| reference_cut(s, &cuts)).collect::<Vec<_>>()}));
        }
    }

    // ---- estimates over histories ----------------------------------------------------------------------------
    let n_hist = ctx.tier.pick(2_000, 20_000);
    for hi in 0..n_hist {
        if ctx.out_of_time() {
            break;
        }
        let n = rng.urange(0, 14);
        let cuts: Vec<(bool, u8, u8)> = (0..n)
            .map(|_| (rng.chance(1, 2), *rng.pick(&[1u8, 1, 2, 3, 4, 5, 0, 6]), *rng.pick(&[0u8, 0, 1, 2, 3])))
            .collect();
        let msg = vcp_with(&mut rng, &cuts);
        // Default::default() and new() are the same empty statistics
        let mut stats = if hi % 2 == 0 { ChunkTimingStats::new() } else { ChunkTimingStats::default() };
        let mut model = Model { windows: HashMap::new() };
        let mut keymap: HashMap<Key, ChunkCharacteristics> = HashMap::new();
        let upload = Utc.timestamp_millis_opt(1_723_552_410_000 + rng.below(1_000_000) as i64).single();
        // one history in ten is long and spread over every key there is (3 chunk types x 6
        // waveform classes x 4 channel configurations = 72): a statistics value holds them all
        let every_key = hi % 10 == 4;
        let hist_len = if every_key { rng.urange(80, 160) } else { rng.urange(0, 50) };
        // a few keys, biased to the ones the cut list uses
        let mut keys: Vec<(ChunkType, u8, u8)> = cuts.iter().map(|c| (ChunkType::Intermediate, c.1, c.2)).collect();
        if every_key {
            for t in [ChunkType::Start, ChunkType::Intermediate, ChunkType::End] {
                for wf in 0..6u8 {
                    for ch in 0..4u8 {
                        keys.push((t, wf, ch));
                    }
                }
            }
            ctx.obs.count("histories_spread_over_all_72_keys", 1);
        }
        keys.push((ChunkType::End, 1, 0));
        keys.push((ChunkType::Start, 2, 1));
        if let Some(c) = cuts.last() {
            keys.push((ChunkType::End, c.1, c.2));
        }
        for step in 0..=hist_len {
            // query after every prefix
            let seqs: Vec<usize> = if step % 5 == 0 || step == hist_len { (0..=60).collect() } else { vec![rng.urange(0, 60), rng.urange(1, 55), 54, 55] };
            for s in seqs {
                let shape = mix(192, mix(step as u64, mix(s as u64, hi)));
                check_estimate(&mut ctx.obs, &msg, &cuts, Some(&stats), &model, s, upload, shape);
                if s % 7 == 3 {
                    check_estimate(&mut ctx.obs, &msg, &cuts, None, &model, s, upload, mix(shape, 1));
                }
                if s % 11 == 4 {
                    check_estimate(&mut ctx.obs, &msg, &cuts, Some(&stats), &model, s, None, mix(shape, 2));
                }
            }
            if step % 10 == 0 {
                check_statistics(&mut ctx.obs, &stats, &model, &keymap);
            }
            if step == hist_len {
                break;
            }
            let (t, wf, ch) = *rng.pick(&keys);
            let ms = match rng.below(5) {
                0 => 0,
                1 => 60_000,
                _ => rng.below(60_001) as i64,
            };
            let attempts = rng.urange(1, 5);
            let ch_struct = ChunkCharacteristics {
                chunk_type: t,
                waveform_type: waveform_of(wf),
                channel_configuration: channel_of(ch),
            };
            let k = key_of(t, wf, ch);
            keymap.insert(k, ch_struct);
            if let Err(p) = mon::catch(|| stats.add_timing(ch_struct, Duration::milliseconds(ms), attempts)) {
                ctx.obs.violation(format!("add_timing {}", p.signature()), p.message, json!({}));
            }
            model.add(k, ms, attempts);
        }
        if ctx.obs.want_sample() && hi % 29 == 1 {
            ctx.obs.sample(json!({"kind": "estimate-history", "cuts": cuts.iter().map(|c| json!([c.0, c.1, c.2])).collect::<Vec<_>>(), "timings_recorded": hist_len}));
        }
    }
    // name that does not parse => no estimate
    {
        let msg = vcp_with(&mut rng, &[(true, 1, 0)]);
        let bad = ChunkIdentifier::new("KDMX".into(), VolumeIndex::new(1), "garbage".into(), None);
        ctx.obs.case(mix(193, 0));
        match mon::catch(|| estimate_next_chunk_time(&bad, &msg, None)) {
            Ok(None) => ctx.obs.count("estimates_none_as_specified", 1),
            Ok(Some(t)) => ctx.obs.violation("estimate for an unparsable previous name", format!("{:?}", t), json!({})),
            Err(p) => ctx.obs.violation(format!("estimate_next_chunk_time {}", p.signature()), p.message, json!({})),
        }
    }
}
