//! C10 — Message header: layout, type mapping and size semantics.

use crate::enc::MsgHeader;
use crate::ev::{hex, Ctx};
use crate::mon;
use crate::rng::{mix, Rng};
use nexrad_decode::messages::decode_message_header;
use nexrad_decode::messages::MessageType;
use serde_json::json;
#[cfg(feature = "dec-uom")]
use uom::si::information::byte;

/// ICD 2620002W Table III: the 29 defined type codes with the name the crate is expected to give
/// them (names compared through `Debug`).
const DEFINED: [(u8, &str); 29] = [
    (1, "RDADigitalRadarData"),
    (2, "RDAStatusData"),
    (3, "RDAPerformanceMaintenanceData"),
    (4, "RDAConsoleMessage"),
    (5, "RDAVolumeCoveragePattern"),
    (6, "RDAControlCommands"),
    (7, "RPGVolumeCoveragePattern"),
    (8, "RPGClutterCensorZones"),
    (9, "RPGRequestForData"),
    (10, "RPGConsoleMessage"),
    (11, "RDALoopBackTest"),
    (12, "RPGLoopBackTest"),
    (13, "RDAClutterFilterBypassMap"),
    (14, "Spare1"),
    (15, "RDAClutterFilterMap"),
    (16, "ReservedFAARMSOnly1"),
    (17, "ReservedFAARMSOnly2"),
    (18, "RDAAdaptationData"),
    (20, "Reserved1"),
    (21, "Reserved2"),
    (22, "Reserved3"),
    (23, "Reserved4"),
    (24, "ReservedFAARMSOnly3"),
    (25, "ReservedFAARMSOnly4"),
    (26, "ReservedFAARMSOnly5"),
    (29, "Reserved5"),
    (31, "RDADigitalRadarDataGenericFormat"),
    (32, "RDAPRFData"),
    (33, "RDALogData"),
];

const CHANNELS: [(u8, &str); 6] = [
    (0, "LegacySingleChannel"),
    (1, "LegacyRedundantChannel1"),
    (2, "LegacyRedundantChannel2"),
    (8, "ORDASingleChannel"),
    (9, "ORDARedundantChannel1"),
    (10, "ORDARedundantChannel2"),
];

fn decode(h: &MsgHeader) -> Result<nexrad_decode::messages::message_header::MessageHeader, String> {
    let b = h.encode();
    // a quarter of the headers arrive through a reader that returns short reads (a socket, a
    // chained reader, a BufReader refill inside the header): same fields, by the same offsets
    let key = crate::rng::fnv(&b);
    if key % 4 == 0 {
        // ... and twice in a row from one such reader: the decoder takes its 28 bytes and no more,
        // so the header that follows is read from its own offsets too
        let mut two = b.to_vec();
        two.extend_from_slice(&b);
        let mut rd = mon::DribbleReader::new(std::io::Cursor::new(&two[..]), key);
        let first = decode_message_header(&mut rd).map_err(|e| format!("{e:?} (through a reader that returns short reads)"))?;
        let second = decode_message_header(&mut rd).map_err(|e| format!("{e:?} (second header from a reader that returns short reads)"))?;
        if first != second {
            return Err("the header that follows on the same short-read reader decodes differently (bytes beyond the 28 were consumed)".to_string());
        }
        return Ok(first);
    }
    let clean = decode_message_header(&mut &b[..]).map_err(|e| format!("{e:?}"))?;
    if key % 4 == 1 {
        // a reader that fails once, transiently, inside the header: an error is fine, the right
        // header is fine, a header put together from other bytes is not
        let raw = |h: &nexrad_decode::messages::message_header::MessageHeader| (h.segment_size, h.redundant_channel, h.message_type, h.sequence_number, h.date, h.time, h.segment_count, h.segment_number);
        match super::decode_through_flaky_reader(&b, key, |rd| decode_message_header(rd)) {
            Err(p) => return Err(format!("panic with a reader that fails transiently: {p}")),
            Ok(Some(h2)) if raw(&h2) != raw(&clean) => return Err(format!("a transient read error inside the header yields a header decoded from other bytes: {:?} instead of {:?}", raw(&h2), raw(&clean))),
            _ => {}
        }
    }
    Ok(clean)
}

fn base_header() -> MsgHeader {
    MsgHeader {
        rpg: [0; 12],
        size: 1216,
        channel: 8,
        mtype: 2,
        seq: 7,
        date: 19_000,
        time: 1234,
        seg_count: 1,
        seg_num: 1,
    }
}

fn check_sizes(ctx: &mut Ctx, size: u16, count: u16, number: u16, pair_class: u64) {
    let mut h = base_header();
    h.size = size;
    h.seg_count = count;
    h.seg_num = number;
    let size_class = match size {
        0 => 0u64,
        0xFFFF => 1,
        0x8000..=0xFFFE => 2,
        _ => 3,
    };
    // distinct by (size, pair class): the count/number pair class is what the oracle branches on
    ctx.obs.case(mix(mix(7, size as u64), pair_class));
    let replay = json!({"size": size, "segment_count": count, "segment_number": number, "header": hex(&h.encode())});
    let d = match decode(&h) {
        Ok(d) => d,
        Err(e) => {
            ctx.obs
                .violation("decode_message_header error", e, replay);
            return;
        }
    };
    let segmented_expected = size != 0xFFFF;
    let bytes_expected: u32 = if segmented_expected {
        2 * size as u32
    } else {
        ((count as u32) << 16) | number as u32
    };
    let cls = if segmented_expected {
        if size >= 0x8000 {
            "segmented size>=0x8000"
        } else {
            "segmented"
        }
    } else {
        "variable-length"
    };
    let _ = size_class;

    macro_rules! acc {
        ($name:expr, $call:expr, $expected:expr) => {
            match mon::catch(|| $call) {
                Err(p) => ctx.obs.violation(
                    format!("{}() panics ({}): {}", $name, cls, p.signature()),
                    format!("{}: {} at {}:{}", $name, p.message, p.file, p.line),
                    replay.clone(),
                ),
                Ok(v) => {
                    let e = $expected;
                    if v != e {
                        ctx.obs.violation(
                            format!("{}() wrong ({})", $name, cls),
                            format!("{}: expected {:?}, observed {:?}", $name, e, v),
                            replay.clone(),
                        );
                    } else {
                        ctx.obs.count("accessor_results_equal_to_model", 1);
                    }
                }
            }
        };
    }

    acc!("segmented", d.segmented(), segmented_expected);
    acc!(
        "segment_count",
        d.segment_count(),
        if segmented_expected { Some(count) } else { None }
    );
    acc!(
        "segment_number",
        d.segment_number(),
        if segmented_expected { Some(number) } else { None }
    );
    acc!("message_size_bytes", d.message_size_bytes(), bytes_expected);
    #[cfg(feature = "dec-uom")]
    {
    acc!(
        "message_size",
        d.message_size().get::<byte>(),
        bytes_expected as f64
    );
    acc!(
        "segment_size",
        d.segment_size().map(|s| s.get::<byte>()),
        if segmented_expected {
            Some(2.0 * size as f64)
        } else {
            None
        }
    );
    // unit-typed and plain accessors agree (independently of what either should be)
    if let (Ok(a), Ok(b)) = (
        mon::catch(|| d.message_size().get::<byte>()),
        mon::catch(|| d.message_size_bytes()),
    ) {
        if a != b as f64 {
            ctx.obs.violation(
                format!("message_size() != message_size_bytes() ({})", cls),
                format!("uom {} vs plain {}", a, b),
                replay.clone(),
            );
        }
    }
    }
}

pub fn run(ctx: &mut Ctx) {
    ctx.rule = "headers are encoded by hand at ICD offsets and decoded by decode_message_header; one case per (size, count/number pair) / type code / channel code / random layout header; \
distinct = distinct (size value, pair class) + type codes + layout headers; oracle = hand-written ICD table and the size rules of the statement"
        .into();
    ctx.exhaustive = Some("all 256 type codes; all 65,536 segment_size values x 64 (count, number) pairs; the six redundant-channel codes".into());
    ctx.assumptions = vec!["ICD Table III type-code list transcribed by hand (29 defined codes)".into()];
    ctx.floor_evaluations = 4_000_000;
    let mut rng = Rng::derive(ctx.seed, 10, 0);

    // ---- layout: distinct field values at their offsets -------------------------------------
    // First of all, before the process has seen any header: the 256 type codes in ascending
    // order, each handed to eight worker threads at once (whatever the library builds or extends
    // on first sight of a code is built under contention), then judged as in the sweep below.
    crate::ev::par_cases_pristine(ctx, 256 * 8, |i, obs| {
        let code = (i / 8) as u8;
        let mut h = base_header();
        h.mtype = code;
        obs.case(mix(201, i));
        let replay = json!({"type_code": code, "phase": "type codes in ascending order on all worker threads at once"});
        let b = h.encode();
        let got = mon::catch(|| decode_message_header(&mut &b[..]).map(|d| d.message_type()));
        match got {
            Err(p) => obs.violation(format!("message_type() panics: {}", p.signature()), p.message, replay),
            Ok(Err(e)) => obs.violation("decode_message_header error", format!("{e:?}"), replay),
            Ok(Ok(mt)) => {
                let name = format!("{:?}", mt);
                match DEFINED.iter().find(|(c, _)| *c == code) {
                    Some((_, want)) if &name == want => obs.count("defined_type_codes_ok_on_first_sight", 1),
                    Some((_, want)) => obs.violation(
                        if matches!(mt, MessageType::Unknown(_)) { "defined type code reported unknown" } else { "defined type code mapped to another type" },
                        format!("code {} -> {}, ICD says {} (type codes in ascending order on all worker threads at once)", code, name, want),
                        replay,
                    ),
                    None if mt == MessageType::Unknown(code) => obs.count("undefined_type_codes_preserved_on_first_sight", 1),
                    None => obs.violation("undefined type code not preserved verbatim", format!("code {} -> {} (type codes in ascending order on all worker threads at once)", code, name), replay),
                }
            }
        }
    });

    let n_layout = ctx.tier.pick(20_000, 2_000_000);
    for i in 0..n_layout {
        if i % 128 == 1 {
            crate::props::poison::run(i as u64);
        }
        let mut d = crate::enc::Distinct::new(&mut rng);
        let h = MsgHeader {
            rpg: {
                let mut r = [0u8; 12];
                for x in r.iter_mut() {
                    *x = rng.u8();
                }
                r
            },
            size: d.u16(&mut rng),
            channel: d.u8(&mut rng),
            mtype: d.u8(&mut rng),
            seq: d.u16(&mut rng),
            date: d.u16(&mut rng),
            time: d.u32(&mut rng),
            seg_count: d.u16(&mut rng),
            seg_num: d.u16(&mut rng),
        };
        // every eighth header carries the ends of a field's wire type in one of its fields (all
        // zeros, all ones): 0 is a value like any other - a date of 0, a sequence number of 0
        let mut h = h;
        if i % 8 == 3 {
            let ends = i / 8 % 2 == 0;
            match i / 16 % 8 {
                0 => h.size = if ends { 0 } else { 0xFFFE },
                1 => h.channel = if ends { 0 } else { 0xFF },
                2 => h.mtype = if ends { 0 } else { 0xFF },
                3 => h.seq = if ends { 0 } else { 0xFFFF },
                4 => h.date = if ends { 0 } else { 0xFFFF },
                5 => h.time = if ends { 0 } else { u32::MAX },
                6 => h.seg_count = if ends { 0 } else { 0xFFFF },
                _ => h.seg_num = if ends { 0 } else { 0xFFFF },
            }
            ctx.obs.count("layout_headers_with_a_field_at_the_end_of_its_type", 1);
        }
        ctx.obs.case(mix(100, i));
        let replay = json!({"header": hex(&h.encode())});
        match decode(&h) {
            Err(e) => ctx.obs.violation("decode_message_header error", e, replay),
            Ok(dh) => {
                let fields: [(&str, u64, u64); 8] = [
                    ("segment_size", dh.segment_size as u64, h.size as u64),
                    ("redundant_channel", dh.redundant_channel as u64, h.channel as u64),
                    ("message_type", dh.message_type as u64, h.mtype as u64),
                    ("sequence_number", dh.sequence_number as u64, h.seq as u64),
                    ("date", dh.date as u64, h.date as u64),
                    ("time", dh.time as u64, h.time as u64),
                    ("segment_count", dh.segment_count as u64, h.seg_count as u64),
                    ("segment_number", dh.segment_number as u64, h.seg_num as u64),
                ];
                for (name, got, want) in fields {
                    if got != want {
                        ctx.obs.violation(
                            format!("layout field {}", name),
                            format!("{}: wrote {:#x} at its ICD offset, decoded {:#x}", name, want, got),
                            replay.clone(),
                        );
                    } else {
                        ctx.obs.count("layout_fields_equal", 1);
                    }
                }
                if ctx.obs.want_sample() {
                    ctx.obs.sample(json!({"kind": "layout", "header_hex": hex(&h.encode()),
                        "decoded": {"segment_size": dh.segment_size, "type": dh.message_type, "seq": dh.sequence_number, "date": dh.date, "time": dh.time, "count": dh.segment_count, "number": dh.segment_number}}));
                }
            }
        }
    }

    // ---- type mapping: all 256 codes --------------------------------------------------------
    let mut seen_names = std::collections::HashMap::new();
    for code in 0..=255u8 {
        let mut h = base_header();
        h.mtype = code;
        ctx.obs.case(mix(200, code as u64));
        let replay = json!({"type_code": code});
        let Ok(d) = decode(&h) else {
            ctx.obs.violation("decode_message_header error", "type-code header refused", replay);
            continue;
        };
        let mt = match mon::catch(|| d.message_type()) {
            Ok(m) => m,
            Err(p) => {
                ctx.obs.violation(
                    format!("message_type() panics: {}", p.signature()),
                    p.message,
                    replay,
                );
                continue;
            }
        };
        let name = format!("{:?}", mt);
        match DEFINED.iter().find(|(c, _)| *c == code) {
            Some((_, want)) => {
                if matches!(mt, MessageType::Unknown(_)) {
                    ctx.obs.violation(
                        "defined type code reported unknown",
                        format!("code {} -> {}", code, name),
                        replay,
                    );
                } else if &name != want {
                    ctx.obs.violation(
                        "defined type code mapped to another type",
                        format!("code {} -> {}, ICD says {}", code, name, want),
                        replay,
                    );
                } else if let Some(prev) = seen_names.insert(name.clone(), code) {
                    ctx.obs.violation(
                        "two type codes share one message type",
                        format!("codes {} and {} -> {}", prev, code, name),
                        replay,
                    );
                } else {
                    ctx.obs.count("defined_type_codes_ok", 1);
                }
            }
            None => {
                if mt != MessageType::Unknown(code) {
                    ctx.obs.violation(
                        "undefined type code not preserved verbatim",
                        format!("code {} -> {}", code, name),
                        replay,
                    );
                } else {
                    ctx.obs.count("undefined_type_codes_preserved", 1);
                }
            }
        }
    }

    // ---- redundant channel ------------------------------------------------------------------
    for (code, want) in CHANNELS {
        let mut h = base_header();
        h.channel = code;
        ctx.obs.case(mix(300, code as u64));
        let replay = json!({"channel_code": code});
        if let Ok(d) = decode(&h) {
            match mon::catch(|| format!("{:?}", d.rda_redundant_channel())) {
                Ok(name) if name == want => ctx.obs.count("channel_codes_ok", 1),
                Ok(name) => ctx.obs.violation(
                    "redundant channel code mapped wrongly",
                    format!("code {} -> {}, expected {}", code, name, want),
                    replay,
                ),
                Err(p) => ctx.obs.violation(
                    format!("rda_redundant_channel() panics on defined code: {}", p.signature()),
                    p.message,
                    replay,
                ),
            }
        }
    }

    // ---- size semantics: every size x 64 (count, number) pairs --------------------------------
    let corners: [u16; 8] = [0, 1, 2, 0x7FFF, 0x8000, 0xFFFE, 0xFFFF, 0x1234];
    let mut pairs: Vec<(u16, u16)> = Vec::new();
    for &c in &corners {
        for &n in &corners {
            pairs.push((c, n));
        }
    }
    debug_assert_eq!(pairs.len(), 64);
    for size in 0..=65_535u16 {
        for (pi, &(c, n)) in pairs.iter().enumerate() {
            check_sizes(ctx, size, c, n, pi as u64);
        }
    }
    // sampled 2^32 count/number space on the variable-length and boundary sizes
    let n_rand = ctx.tier.pick(200_000, 12_000_000);
    for i in 0..n_rand {
        if i % 128 == 1 {
            crate::props::poison::run(i as u64);
        }
        let size = *rng.pick(&[0xFFFFu16, 0xFFFF, 0xFFFE, 0x8000, 0x7FFF, 0, 1216]);
        let c = rng.u16();
        let n = rng.u16();
        check_sizes(ctx, size, c, n, 1000 + i);
    }
    if let Some(v) = ctx.obs.samples.first().cloned() {
        let _ = v;
    }
    ctx.obs.sample(json!({"kind": "size", "size": 65535, "segment_count": 1, "segment_number": 2, "expected_message_size_bytes": 65538}));
}
