//! C07 — Radial model mapping and gate-value conversion are exact.

use crate::cal;
use crate::enc::{self, gen_msg31, Block, Moment, Msg31};
use crate::ev::{par_cases, Ctx, Obs};
use crate::mon;
use crate::rng::{mix, Rng};
use crate::volgen::model_status;
use nexrad_decode::messages::digital_radar_data::{
    decode_digital_radar_data, GenericDataBlock, Message, ScaledMomentValue,
};
use nexrad_model::data::{MomentData, MomentValue, Radial, RadialStatus};
use serde_json::json;
use std::io::Cursor;

#[derive(Clone, Copy, Debug, PartialEq)]
enum Want {
    Below,
    Folded,
    Value(u32), // f32 bits
}

fn raws_of(m: &Moment) -> Vec<u16> {
    if m.word == 16 {
        m.data
            .chunks_exact(2)
            .map(|c| u16::from_be_bytes([c[0], c[1]]))
            .collect()
    } else {
        m.data.iter().map(|b| *b as u16).collect()
    }
}

/// Expected value of one gate; the second alternative is accepted only for raw 0/1 with scale 0,
/// which the statement leaves open.
fn want(raw: u16, scale: f32, offset: f32) -> (Want, Option<Want>) {
    if scale == 0.0 {
        let v = Want::Value((raw as f32).to_bits());
        let alt = match raw {
            0 => Some(Want::Below),
            1 => Some(Want::Folded),
            _ => None,
        };
        return (v, alt);
    }
    match raw {
        0 => (Want::Below, None),
        1 => (Want::Folded, None),
        _ => (Want::Value(((raw as f32 - offset) / scale).to_bits()), None),
    }
}

fn of_model(v: &MomentValue) -> Want {
    match v {
        MomentValue::BelowThreshold => Want::Below,
        MomentValue::RangeFolded => Want::Folded,
        MomentValue::Value(f) => Want::Value(f.to_bits()),
    }
}
fn of_decode(v: &ScaledMomentValue) -> Want {
    match v {
        ScaledMomentValue::BelowThreshold => Want::Below,
        ScaledMomentValue::RangeFolded => Want::Folded,
        ScaledMomentValue::Value(f) => Want::Value(f.to_bits()),
    }
}

fn decode(spec: &Msg31, rng: &mut Rng) -> Result<Message, String> {
    let body = spec.encode(rng);
    match mon::catch(|| decode_digital_radar_data(&mut Cursor::new(&body[..]))) {
        Ok(Ok(m)) => Ok(m),
        Ok(Err(e)) => Err(format!("decode error {e:?}")),
        Err(p) => Err(p.signature()),
    }
}

fn check_moment(
    obs: &mut Obs,
    name: &str,
    spec: &Moment,
    block: Option<&GenericDataBlock>,
    model: Option<&MomentData>,
    replay: &serde_json::Value,
) {
    let cls = format!("{} data_word_size={}", "moment", spec.word);
    let (Some(block), Some(model)) = (block, model) else {
        obs.violation(
            format!("{}: present moment reported absent", cls),
            format!("{} block={} model={}", name, block.is_some(), model.is_some()),
            replay.clone(),
        );
        return;
    };
    let raws = raws_of(spec);
    let dv = match mon::catch(|| block.decoded_values()) {
        Ok(v) => v,
        Err(p) => {
            obs.violation(format!("decoded_values {}", p.signature()), p.message, replay.clone());
            return;
        }
    };
    let mv = match mon::catch(|| model.values()) {
        Ok(v) => v,
        Err(p) => {
            obs.violation(format!("MomentData::values {}", p.signature()), p.message, replay.clone());
            return;
        }
    };
    if dv.len() != spec.gates as usize || mv.len() != spec.gates as usize {
        obs.violation(
            format!("{}: not exactly one value per gate", cls),
            format!(
                "{}: {} gates, decode level gives {} values, model level {}",
                name,
                spec.gates,
                dv.len(),
                mv.len()
            ),
            replay.clone(),
        );
        return;
    }
    for (g, raw) in raws.iter().enumerate() {
        let (w, alt) = want(*raw, spec.scale, spec.offset);
        let d = of_decode(&dv[g]);
        let m = of_model(&mv[g]);
        if d != m {
            obs.violation(
                format!("{}: decode level and model level disagree", cls),
                format!("{} gate {} raw {}: decode {:?}, model {:?}", name, g, raw, d, m),
                replay.clone(),
            );
            return;
        }
        if d != w && Some(d) != alt {
            let kind = match raw {
                0 | 1 => "sentinel raw 0/1",
                _ => {
                    if spec.scale == 0.0 {
                        "scale 0"
                    } else {
                        "scaled value"
                    }
                }
            };
            obs.violation(
                format!("{}: wrong gate value ({})", cls, kind),
                format!(
                    "{} gate {} raw {} scale {:?} offset {:?}: expected {:?}, observed {:?}",
                    name, g, raw, spec.scale, spec.offset, w, d
                ),
                replay.clone(),
            );
            return;
        }
    }
    obs.count("gate_values_checked", raws.len() as u64);
    obs.count("moments_checked", 1);
}

pub fn check_message(obs: &mut Obs, spec: &Msg31, rng: &mut Rng, shape: u64, case_index: u64) {
    obs.case(shape);
    let replay = json!({"case_index": case_index, "header": format!("{:?}", spec.hdr),
        "moments": spec.blocks.iter().filter_map(|b| if let Block::Mom(m) = b { Some(json!({"name": String::from_utf8_lossy(&m.name), "gates": m.gates, "word": m.word, "scale": m.scale, "offset": m.offset, "data": crate::ev::hex_abbrev(&m.data, 64)})) } else { None }).collect::<Vec<_>>()});
    let msg = match decode(spec, rng) {
        Ok(m) => m,
        Err(e) => {
            obs.violation(format!("well-formed message refused: {}", e), "", replay);
            return;
        }
    };
    let a = mon::catch(|| msg.radial());
    let b = mon::catch(|| msg.clone().into_radial());
    let (ra, rb): (Radial, Radial) = match (a, b) {
        (Ok(Ok(a)), Ok(Ok(b))) => (a, b),
        (Err(p), _) | (_, Err(p)) => {
            obs.violation(format!("radial conversion {}", p.signature()), p.message, replay);
            return;
        }
        (Ok(Err(_)), Ok(Err(_))) if matches!(mon::catch(|| msg.header.date_time()), Ok(None)) => {
            // the header has no date-time at all: there is no collection time to report
            obs.count("conversions_refused_for_a_header_without_date_time", 1);
            return;
        }
        (a, b) => {
            obs.violation(
                "radial conversion refuses a decoded message",
                format!("radial(): {:?}, into_radial(): {:?}", a.map(|r| r.is_ok()), b.map(|r| r.is_ok())),
                replay,
            );
            return;
        }
    };
    if ra != rb {
        obs.violation(
            "radial() and into_radial() differ",
            "borrowing and consuming conversions produced unequal radials",
            replay,
        );
        return;
    }
    // the typed views of the same fields (only present when the model is built with its optional
    // `uom` / `chrono` features: the all-features lane) say what the plain accessors say
    #[cfg(feature = "allfeat")]
    {
        use uom::si::angle::degree;
        use uom::si::f32::Angle;
        let typed = |a: Angle, deg: f32| a.value.to_bits() == Angle::new::<degree>(deg).value.to_bits();
        let views = [
            ("azimuth()", typed(ra.azimuth(), ra.azimuth_angle_degrees())),
            ("azimuth_spacing()", typed(ra.azimuth_spacing(), ra.azimuth_spacing_degrees())),
            ("elevation_angle()", typed(ra.elevation_angle(), ra.elevation_angle_degrees())),
            ("collection_time()", ra.collection_time() == chrono::DateTime::from_timestamp_millis(ra.collection_timestamp())),
        ];
        for (name, ok) in views {
            if !ok {
                obs.violation(format!("typed view {} disagrees with the plain accessor", name), format!("{:?}", ra), replay.clone());
                return;
            }
        }
        obs.count("typed_views_equal_to_plain_accessors", 4);
    }
    // ... and equal in everything their accessors report, not only by the model's own `==`
    if crate::volgen::radial_fingerprint(&ra) != crate::volgen::radial_fingerprint(&rb) {
        obs.violation(
            "radial() and into_radial() differ",
            "the two radials compare equal but report different header fields or gate values",
            replay,
        );
        return;
    }
    let h = &spec.hdr;
    // collection time: always the header's own date-time in epoch milliseconds (whatever the
    // fields hold), and for fields inside the ICD's domain also the integer calendar's instant
    let in_domain = h.date >= 1 && h.time < 86_400_000;
    let want_ts = cal::icd_epoch_ms(h.date.max(1), h.time as u64);
    match mon::catch(|| msg.header.date_time()) {
        Ok(Some(dt)) => {
            if ra.collection_timestamp() != dt.timestamp_millis() {
                obs.violation(
                    "radial collection time differs from the header's date-time",
                    format!("date {} time {}: header {} ({} ms), radial {} ms", h.date, h.time, dt, dt.timestamp_millis(), ra.collection_timestamp()),
                    replay,
                );
                return;
            }
            if !in_domain {
                obs.count("collection_times_checked_for_out_of_domain_fields", 1);
            }
        }
        Ok(None) => {
            obs.violation("radial converted although the header has no date-time", format!("date {} time {}", h.date, h.time), replay);
            return;
        }
        Err(p) => {
            obs.violation(format!("header date_time {}", p.signature()), p.message, replay);
            return;
        }
    }
    let checks: [(&str, bool, String); 7] = [
        ("collection_timestamp", !in_domain || ra.collection_timestamp() == want_ts, format!("expected {}, observed {}", want_ts, ra.collection_timestamp())),
        ("azimuth_number", ra.azimuth_number() == h.az_num, format!("expected {}, observed {}", h.az_num, ra.azimuth_number())),
        ("azimuth_angle", ra.azimuth_angle_degrees().to_bits() == h.az.to_bits(), format!("expected {}, observed {}", h.az, ra.azimuth_angle_degrees())),
        ("azimuth_spacing", ra.azimuth_spacing_degrees().to_bits() == (h.spacing as f32 * 0.5).to_bits(), format!("code {}: expected {}, observed {}", h.spacing, h.spacing as f32 * 0.5, ra.azimuth_spacing_degrees())),
        ("elevation_number", ra.elevation_number() == h.elev_num, format!("expected {}, observed {}", h.elev_num, ra.elevation_number())),
        ("elevation_angle", ra.elevation_angle_degrees().to_bits() == h.elev.to_bits(), format!("expected {}, observed {}", h.elev, ra.elevation_angle_degrees())),
        ("radial_status", h.status > 5 || ra.radial_status() == model_status(h.status), format!("code {}: expected {:?}, observed {:?}", h.status, model_status(h.status), ra.radial_status())),
    ];
    for (name, ok, detail) in checks {
        if !ok {
            obs.violation(format!("radial field {}", name), detail, replay.clone());
            return;
        }
    }
    // for *every* code, documented or not, the model radial reports the like-named variant of the
    // status the decoded message itself reports (the two enums correspond one to one by name)
    {
        use nexrad_decode::messages::digital_radar_data::RadialStatus as D;
        let at_decode_level = msg.header.radial_status();
        let at_model_level = ra.radial_status();
        let image = match at_decode_level {
            D::ElevationStart => RadialStatus::ElevationStart,
            D::IntermediateRadialData => RadialStatus::IntermediateRadialData,
            D::ElevationEnd => RadialStatus::ElevationEnd,
            D::VolumeScanStart => RadialStatus::VolumeScanStart,
            D::VolumeScanEnd => RadialStatus::VolumeScanEnd,
            D::ElevationStartVCPFinal => RadialStatus::ElevationStartVCPFinal,
        };
        if image != at_model_level {
            obs.violation(
                "radial status differs between the decoded message and the model radial",
                format!("code {}: message reports {:?}, model radial reports {:?}", h.status, at_decode_level, at_model_level),
                replay.clone(),
            );
            return;
        }
        if h.status > 5 {
            obs.count("undocumented_status_codes_mapped_consistently", 1);
        }
    }
    obs.count("radial_headers_checked", 1);
    let slots: [(&str, usize, Option<&GenericDataBlock>, Option<&MomentData>); 7] = [
        ("REF", 3, msg.reflectivity_data_block.as_ref(), ra.reflectivity()),
        ("VEL", 4, msg.velocity_data_block.as_ref(), ra.velocity()),
        ("SW", 5, msg.spectrum_width_data_block.as_ref(), ra.spectrum_width()),
        ("ZDR", 6, msg.differential_reflectivity_data_block.as_ref(), ra.differential_reflectivity()),
        ("PHI", 7, msg.differential_phase_data_block.as_ref(), ra.differential_phase()),
        ("RHO", 8, msg.correlation_coefficient_data_block.as_ref(), ra.correlation_coefficient()),
        ("CFP", 9, msg.specific_diff_phase_data_block.as_ref(), ra.specific_differential_phase()),
    ];
    for (name, slot, block, model) in slots {
        let spec_m = spec.blocks.iter().find_map(|b| match b {
            Block::Mom(m) if b.slot() == slot => Some(m),
            _ => None,
        });
        match spec_m {
            Some(m) => check_moment(obs, name, m, block, model, &replay),
            None => {
                if block.is_some() || model.is_some() {
                    obs.violation(
                        "absent moment reported present",
                        format!("{}: block={} model={}", name, block.is_some(), model.is_some()),
                        replay.clone(),
                    );
                } else {
                    obs.count("absent_moments_stay_absent", 1);
                }
            }
        }
    }
}

fn one_moment_msg(rng: &mut Rng, name: [u8; 3], word: u8, scale: f32, offset: f32, raws: &[u16]) -> Msg31 {
    let mut d = enc::Distinct::new(rng);
    let mut hdr = enc::gen_data_header(rng, &mut d);
    hdr.status = rng.below(6) as u8;
    let mut data = Vec::with_capacity(raws.len() * (word as usize / 8));
    for r in raws {
        if word == 16 {
            data.extend_from_slice(&r.to_be_bytes());
        } else {
            data.push(*r as u8);
        }
    }
    let mut m = enc::gen_moment(rng, &mut d, name, raws.len() as u16, word);
    m.scale = scale;
    m.offset = offset;
    m.data = data;
    Msg31::contiguous(hdr, vec![Block::Mom(m)])
}

pub fn scale_offset_pairs(rng: &mut Rng, n: usize) -> Vec<(f32, f32)> {
    let mut v: Vec<(f32, f32)> = vec![
        (2.0, 66.0),
        (2.0, 129.0),
        (16.0, 128.0),
        (2.8361, 2.0),
        (300.0, -60.5),
        (0.0, 0.0),
        (0.0, 66.0),
        (-0.0, 5.0),
        (-2.0, 66.0),
        (1.0, 0.0),
        (1.0e-40, 0.0),  // subnormal
        (1.0e30, 1.0e30),
        (f32::MIN_POSITIVE, -1.0),
        (f32::MAX, f32::MAX),
        (0.5, -32768.0),
    ];
    while v.len() < n {
        v.push((rng.f32_finite(), rng.f32_finite()));
    }
    v
}

pub fn run(ctx: &mut Ctx) {
    ctx.rule = "a case is one type-31 message (hand-encoded, decoded by the real decoder) converted by radial() and into_radial(); \
distinct = distinct (block subset, gate class, word size, scale==0) shapes, plus one case per (scale, offset, word size) of the exhaustive raw sweep; oracle = header mapping (numbers, angles, 0.5 x spacing code, status one-to-one (documented codes against the table, every code against the status the message itself reports), epoch ms from the integer calendar), one value per gate with raw 0/1 sentinels, (raw-offset)/scale in f32 compared by bit pattern, raw when scale is 0, decode-level == model-level, absent stays absent"
        .into();
    ctx.exhaustive = Some("all 256 8-bit raws and all 65,536 16-bit raws for each of 200 (scale, offset) pairs (incl. 0, -0, negative, subnormal, huge); all 256 spacing codes; status codes 0..=5".into());
    ctx.assumptions = vec![
        "raw 0/1 with scale 0 may be either the sentinel or the raw value (the statement leaves it open); decode level and model level must still agree".into(),
        "status codes >= 6 are undocumented: whichever status the decoded message reports for them, the model radial must report the like-named one; they must not panic".into(),
    ];
    ctx.floor_evaluations = 1_000;
    let seed = ctx.seed;

    // ---- exhaustive raws ----------------------------------------------------------------------------
    let mut rng0 = Rng::derive(seed, 7, 0);
    let pairs = scale_offset_pairs(&mut rng0, 200);
    let pairs_ref = &pairs;
    par_cases(ctx, pairs.len() as u64 * 3, |i, obs| {
        let mut rng = Rng::derive(seed, 7, 1 + i);
        let (scale, offset) = pairs_ref[(i / 3) as usize];
        let name = **rng.pick(&enc::MOMENT_NAMES);
        let spec = match i % 3 {
            0 => {
                let raws: Vec<u16> = (0..=255u16).collect();
                one_moment_msg(&mut rng, name, 8, scale, offset, &raws)
            }
            1 => {
                let raws: Vec<u16> = (0..=32767u16).collect();
                one_moment_msg(&mut rng, name, 16, scale, offset, &raws)
            }
            _ => {
                let raws: Vec<u16> = (32768..=65535u16).collect();
                one_moment_msg(&mut rng, name, 16, scale, offset, &raws)
            }
        };
        check_message(obs, &spec, &mut rng, mix(70, i), i);
        obs.count("exhaustive_raw_sweeps", 1);
    });

    // ---- spacing codes and status codes --------------------------------------------------------------
    {
        let mut obs = Obs::new();
        let mut rng = Rng::derive(seed, 7, 5_000);
        for code in 0..=255u8 {
            for status in 0..=6u8 {
                let mut spec = gen_msg31(&mut rng, 0b0000001000, false, false);
                spec.hdr.spacing = code;
                spec.hdr.status = if status == 6 { rng.range(6, 255) as u8 } else { status };
                if let Some(Block::Mom(m)) = spec.blocks.get_mut(0) {
                    m.gates = 4;
                    m.word = 8;
                    m.data = vec![0, 1, 2, 255];
                }
                check_message(&mut obs, &spec, &mut rng, mix(71, code as u64 * 8 + status as u64), 0);
            }
        }
        // status mapping is one-to-one on 0..=5
        let mut seen: Vec<RadialStatus> = Vec::new();
        for s in 0..=5u8 {
            let st = model_status(s);
            if seen.contains(&st) {
                obs.violation("harness status table not one-to-one", "", json!({}));
            }
            seen.push(st);
        }
        ctx.obs.merge(obs);
    }

    // ---- random messages ---------------------------------------------------------------------------
    let total: u64 = ctx.tier.pick(200_000, 3_000_000);
    par_cases(ctx, total, |i, obs| {
        let mut rng = Rng::derive(seed, 7, 10_000 + i);
        let subset = if i < 1024 { i as u16 } else { rng.below(1024) as u16 };
        let permute = rng.chance(1, 2);
        let mut spec = gen_msg31(&mut rng, subset, permute, i % 40 == 0);
        spec.hdr.status = if rng.chance(1, 12) { rng.u8() } else { rng.below(6) as u8 };
        // date/time fields at and beyond the edges of the ICD's domain: the collection time is
        // still whatever the header's own accessor says
        if rng.chance(1, 6) {
            spec.hdr.date = *rng.pick(&[0u16, 1, 1, 2, 65535]);
        }
        if rng.chance(1, 6) {
            spec.hdr.time = *rng.pick(&[0u32, 86_399_999, 86_400_000, 86_400_001, 172_800_000, 1 << 31, u32::MAX, rng.clone().next_u64() as u32]);
        }
        let shape = super::cmp31::shape(&spec);
        check_message(obs, &spec, &mut rng, shape, i);
        if obs.want_sample() && i % 601 == 3 {
            obs.sample(json!({"subset": format!("{:010b}", subset), "spacing_code": spec.hdr.spacing, "status": spec.hdr.status,
                "moments": spec.blocks.iter().filter_map(|b| if let Block::Mom(m) = b { Some(json!({"name": String::from_utf8_lossy(&m.name), "gates": m.gates, "word": m.word, "scale": m.scale, "offset": m.offset})) } else { None }).collect::<Vec<_>>()}));
        }
    });
}
