//! C05 — Volume container: records tile the file, bzip2 round-trips, header exact.

use crate::cal;
use crate::enc::{self, VolHeader};
use crate::ev::{hex_abbrev, par_cases, Ctx, Obs};
use crate::mon;
use crate::rng::{mix, Rng};
use nexrad_data::aws::realtime::Chunk;
use nexrad_data::volume::{File, Record};
use serde_json::json;

#[derive(Clone)]
pub enum Body {
    /// bzip2 of this payload
    Compressed { payload: Vec<u8>, level: u32 },
    /// raw bytes that do not start with "BZ"
    Plain(Vec<u8>),
    /// raw bytes that start with "BZ" without being a bzip2 stream ("BZ" alone, "BZ" + anything):
    /// the statement makes the two magic bytes the whole criterion
    BzMarked(Vec<u8>),
}

#[derive(Clone)]
pub struct ContainerSpec {
    pub header: VolHeader,
    pub bodies: Vec<(Body, bool)>, // (body, negative prefix)
}

pub fn gen_payload(rng: &mut Rng, max: usize) -> Vec<u8> {
    let n = match rng.below(8) {
        0 => 0,
        1 => 1,
        2 => rng.usize_below(32),
        3 => rng.usize_below(max + 1),
        _ => rng.usize_below(max.min(4096) + 1),
    };
    match rng.below(6) {
        5 => {
            // a whole LDM record (size prefix + bzip2 stream) as payload: the decompressed record
            // then itself has 'BZ' at bytes 4..6
            enc::ldm_record(&enc::bzip2_compress(&rng.bytes(n.min(1500)), 1), rng.chance(1, 2))
        }
        0 => rng.bytes(n),                                  // incompressible
        1 => vec![rng.u8(); n],                             // highly compressible
        2 => {
            // looks like bzip2 itself
            let mut p = b"BZh91AY&SY".to_vec();
            p.extend_from_slice(&rng.bytes(n));
            p
        }
        3 => {
            // a real bzip2 stream as payload (double compression)
            enc::bzip2_compress(&rng.bytes(n.min(2000)), 9)
        }
        _ => {
            // text-like, repeating
            let word = rng.bytes(rng.clone().urange(1, 12));
            word.iter().cycle().take(n).cloned().collect()
        }
    }
}

pub fn gen_container(rng: &mut Rng, max_payload: usize) -> ContainerSpec {
    let header = if rng.chance(1, 2) {
        VolHeader::realistic(rng)
    } else {
        let mut tape = [0u8; 9];
        let mut ext = [0u8; 3];
        let mut icao = [0u8; 4];
        match rng.below(3) {
            0 => {
                // valid UTF-8 of mixed character widths: boundaries fall on arbitrary byte offsets
                tape.copy_from_slice(&enc::utf8_fill(rng, 9));
                ext.copy_from_slice(&enc::utf8_fill(rng, 3));
                icao.copy_from_slice(&enc::utf8_fill(rng, 4));
            }
            k => {
                let ascii = k == 1;
                for b in tape.iter_mut().chain(ext.iter_mut()).chain(icao.iter_mut()) {
                    *b = if ascii { rng.range(0x20, 0x7e) as u8 } else { rng.u8() };
                }
            }
        }
        VolHeader {
            tape,
            ext,
            date: match rng.below(4) {
                0 => rng.u32(),
                1 => *rng.pick(&[0u32, 1, 65_535, 65_536]),
                _ => rng.range(1, 65_535) as u32,
            },
            time: match rng.below(4) {
                0 => rng.u32(),
                _ => rng.below(86_400_000) as u32,
            },
            icao,
        }
    };
    let nrec = match rng.below(6) {
        0 => 0,
        1 => 1,
        2 => 40,
        _ => rng.urange(1, 12),
    };
    let mut bodies: Vec<(Body, bool)> = Vec::with_capacity(nrec);
    for _ in 0..nrec {
        // a record may repeat its predecessor byte for byte: still a record of its own
        if !bodies.is_empty() && rng.chance(1, 8) {
            let prev = bodies[bodies.len() - 1].clone();
            bodies.push(prev);
            continue;
        }
        bodies.push({
            let body = if rng.chance(1, 8) {
                let mut raw = b"BZ".to_vec();
                match rng.below(4) {
                    0 => {}
                    1 => raw.push(*rng.pick(&[b'H', b'i', b'0', 0, 0xFF, b'g'])),
                    2 => {
                        raw.push(b'h');
                        raw.extend_from_slice(&rng.bytes(rng.clone().usize_below(40)));
                    }
                    _ => raw.extend_from_slice(&rng.bytes(rng.clone().urange(1, 600))),
                }
                Body::BzMarked(raw)
            } else if rng.chance(4, 5) {
                Body::Compressed {
                    payload: gen_payload(rng, max_payload),
                    level: rng.range(1, 9) as u32,
                }
            } else {
                let mut raw = gen_payload(rng, max_payload.min(2048));
                if raw.len() >= 2 && &raw[0..2] == b"BZ" {
                    raw[0] = b'A';
                }
                Body::Plain(raw)
            };
            (body, rng.chance(1, 2))
        });
    }
    ContainerSpec { header, bodies }
}

impl ContainerSpec {
    pub fn build(&self) -> (Vec<u8>, Vec<Vec<u8>>) {
        let mut f = self.header.encode().to_vec();
        let mut recs = Vec::new();
        for (b, neg) in &self.bodies {
            let body = match b {
                Body::Compressed { payload, level } => enc::bzip2_compress(payload, *level),
                Body::Plain(raw) | Body::BzMarked(raw) => raw.clone(),
            };
            let r = enc::ldm_record(&body, *neg && !body.is_empty());
            f.extend_from_slice(&r);
            recs.push(r);
        }
        (f, recs)
    }
}

fn utf8_or_none(b: &[u8]) -> Option<String> {
    String::from_utf8(b.to_vec()).ok()
}

pub fn check_container(obs: &mut Obs, spec: &ContainerSpec, case_index: u64) {
    let (bytes, recs) = spec.build();
    let sizes: Vec<usize> = recs.iter().map(|r| r.len()).collect();
    let mut shape = mix(5, recs.len() as u64);
    for (b, neg) in &spec.bodies {
        let (k, n) = match b {
            Body::Compressed { payload, .. } => (1u64, payload.len()),
            Body::Plain(r) => (2u64, r.len()),
            Body::BzMarked(r) => (3u64, r.len()),
        };
        let cls = match n {
            0 => 0u64,
            1..=31 => 1,
            32..=4096 => 2,
            _ => 3,
        };
        shape = mix(shape, k * 8 + cls * 2 + *neg as u64);
    }
    if recs.is_empty() {
        obs.case_trivial();
    } else {
        obs.case(shape);
    }
    let replay = json!({"case_index": case_index, "record_sizes": sizes, "file_len": bytes.len(),
        "file_hex": crate::ev::hex(&bytes[..bytes.len().min(20_000)])});
    let file = File::new(bytes.clone());

    // data() is the input
    if file.data() != &bytes {
        obs.violation("File::data differs from the input", "", replay.clone());
        return;
    }

    // header accessors
    match mon::catch(|| file.header()) {
        Err(p) => {
            obs.violation(format!("File::header {}", p.signature()), p.message, replay.clone());
            return;
        }
        Ok(Err(e)) => {
            obs.violation("File::header refuses a well-formed file", format!("{e:?}"), replay.clone());
            return;
        }
        Ok(Ok(h)) => {
            // the same 24 bytes read in pieces (a reader that returns short reads) give the same header
            let mut rd = mon::DribbleReader::new(std::io::Cursor::new(&bytes[..]), bytes.len() as u64 ^ 0x5eed);
            let r = mon::catch(|| nexrad_data::volume::Header::deserialize(&mut rd));
            // the header is the first 24 bytes and nothing more: what follows it is still the caller's
            // to read (the records, or the next header of a concatenation)
            if r.as_ref().map(|x| x.is_ok()).unwrap_or(false) {
                use std::io::Seek;
                match rd.stream_position() {
                    Ok(24) => obs.count("header_reads_that_left_the_reader_at_byte_24", 1),
                    other => {
                        obs.violation("Header::deserialize consumes more than the 24 header bytes of the caller's reader", format!("reader left at {:?}", other), replay.clone());
                        return;
                    }
                }
            }
            match r {
                Ok(Ok(h2)) if h2 == h => obs.count("headers_identical_through_short_reads", 1),
                Ok(other) => {
                    obs.violation("volume header depends on how the reader chunks the bytes (short reads)", format!("{:?}", other.map(|x| format!("{:?}", x)).map_err(|e| format!("{e:?}"))), replay.clone());
                    return;
                }
                Err(p) => {
                    obs.violation(format!("Header::deserialize {}", p.signature()), p.message, replay.clone());
                    return;
                }
            }
            let w = &spec.header;
            if h.tape_filename() != utf8_or_none(&w.tape) {
                obs.violation("header tape_filename", format!("wrote {:?}, got {:?}", w.tape, h.tape_filename()), replay.clone());
            }
            if h.extension_number() != utf8_or_none(&w.ext) {
                obs.violation("header extension_number", format!("wrote {:?}, got {:?}", w.ext, h.extension_number()), replay.clone());
            }
            if h.icao_of_radar() != utf8_or_none(&w.icao) {
                obs.violation("header icao_of_radar", format!("wrote {:?}, got {:?}", w.icao, h.icao_of_radar()), replay.clone());
            }
            if (1..=65_535).contains(&w.date) && w.time < 86_400_000 {
                let want = cal::icd_epoch_ms(w.date as u16, w.time as u64);
                match mon::catch(|| h.date_time()) {
                    Ok(Some(dt)) if dt.timestamp_millis() == want => obs.count("header_instants_exact", 1),
                    Ok(other) => obs.violation(
                        "header date_time",
                        format!("date {} time {}: expected epoch ms {}, got {:?}", w.date, w.time, want, other),
                        replay.clone(),
                    ),
                    Err(p) => obs.violation(format!("header date_time {}", p.signature()), p.message, replay.clone()),
                }
            } else if let Err(p) = mon::catch(|| h.date_time()) {
                obs.violation(format!("header date_time {}", p.signature()), p.message, replay.clone());
            }
            obs.count("headers_checked", 1);
        }
    }

    // tiling
    let records = match mon::catch(|| file.records()) {
        Err(p) => {
            obs.violation(format!("File::records {}", p.signature()), p.message, replay.clone());
            return;
        }
        Ok(r) => r,
    };
    if records.len() != recs.len() {
        obs.violation(
            "record count differs",
            format!("wrote {} records, listed {}", recs.len(), records.len()),
            replay.clone(),
        );
        return;
    }
    let mut concat = Vec::with_capacity(bytes.len());
    for (i, (r, w)) in records.iter().zip(recs.iter()).enumerate() {
        if r.data() != &w[..] {
            obs.violation(
                "record data differs from prefix+body",
                format!("record {}: wrote {} bytes, listed {} bytes", i, w.len(), r.data().len()),
                replay.clone(),
            );
            return;
        }
        concat.extend_from_slice(r.data());
    }
    if concat != bytes[24..] {
        obs.violation("records do not tile the file remainder", "", replay.clone());
        return;
    }
    obs.count("files_tiled_exactly", 1);
    obs.count("records_checked", recs.len() as u64);

    // per record: compressed flag, round trip, errors
    for (i, (r, (b, _))) in records.iter().zip(spec.bodies.iter()).enumerate() {
        let raw = r.data();
        let want_compressed = raw.len() >= 6 && &raw[4..6] == b"BZ";
        if r.compressed() != want_compressed {
            obs.violation(
                "compressed() disagrees with the BZ magic after the prefix",
                format!("record {}: bytes {}", i, hex_abbrev(raw, 8)),
                replay.clone(),
            );
            continue;
        }
        // owned copy behaves identically
        let owned = Record::new(raw.to_vec());
        if owned.compressed() != want_compressed || owned.data() != raw {
            obs.violation("owned record differs from borrowed record", format!("record {}", i), replay.clone());
        }
        if want_compressed {
            match mon::catch(|| owned.messages()) {
                Ok(Err(_)) => obs.count("decoding_compressed_record_is_error", 1),
                Ok(Ok(v)) => obs.violation(
                    "messages() on an owned compressed record is not an error",
                    format!("record {}: Ok with {} messages", i, v.len()),
                    replay.clone(),
                ),
                Err(p) => obs.violation(format!("messages {}", p.signature()), p.message, replay.clone()),
            }
        }
        match b {
            Body::Compressed { payload, .. } => {
                if !want_compressed {
                    obs.violation("harness: bzip2 body without BZ magic", "", replay.clone());
                    continue;
                }
                match mon::catch(|| r.decompress()) {
                    Err(p) => obs.violation(format!("decompress {}", p.signature()), p.message, replay.clone()),
                    Ok(Err(e)) => obs.violation(
                        "decompress fails on a well-formed record",
                        format!("record {} payload {} bytes: {e:?}", i, payload.len()),
                        replay.clone(),
                    ),
                    Ok(Ok(d)) => {
                        if d.data() != &payload[..] {
                            obs.violation(
                                "decompress does not return the payload byte-for-byte",
                                format!(
                                    "record {}: payload {} bytes ({}), got {} bytes ({})",
                                    i,
                                    payload.len(),
                                    hex_abbrev(payload, 16),
                                    d.data().len(),
                                    hex_abbrev(d.data(), 16)
                                ),
                                replay.clone(),
                            );
                        } else {
                            obs.count("bzip2_round_trips_exact", 1);
                            obs.max("payload_bytes", payload.len() as u64);
                            // the record that comes out is a record like any other: whether it is
                            // compressed is a fact about *its* bytes 4..6
                            let inner_bz = payload.len() >= 6 && &payload[4..6] == b"BZ";
                            match mon::catch(|| (d.compressed(), d.messages().is_err())) {
                                Ok((c, msgs_err)) => {
                                    if c != inner_bz {
                                        obs.violation(
                                            "compressed() of a decompressed record disagrees with the BZ magic after its prefix",
                                            format!("record {}: payload bytes 4..6 {:?}, compressed() {}", i, payload.get(4..6), c),
                                            replay.clone(),
                                        );
                                    } else if inner_bz && !msgs_err {
                                        obs.violation("messages() on a compressed record is not an error", format!("record {} (decompressed, itself compressed)", i), replay.clone());
                                    } else if inner_bz {
                                        obs.count("decompressed_records_that_are_themselves_compressed", 1);
                                    }
                                }
                                Err(p) => obs.violation(format!("decompressed record {}", p.signature()), p.message, replay.clone()),
                            }
                        }
                    }
                }
                match mon::catch(|| r.messages()) {
                    Ok(Err(_)) => obs.count("decoding_compressed_record_is_error", 1),
                    Ok(Ok(_)) => obs.violation("messages() on a compressed record is not an error", format!("record {}", i), replay.clone()),
                    Err(p) => obs.violation(format!("messages {}", p.signature()), p.message, replay.clone()),
                }
            }
            Body::BzMarked(_) => {
                // compressed() was already required to be true above (magic follows the prefix);
                // decoding a record that reports itself compressed is an error, and whatever
                // decompress() makes of the body it must not panic
                if !want_compressed {
                    obs.violation("harness: BZ-marked body without BZ magic", "", replay.clone());
                    continue;
                }
                obs.count("bz_marked_non_bzip2_bodies_reported_compressed", 1);
                match mon::catch(|| r.messages()) {
                    Ok(Err(_)) => obs.count("decoding_compressed_record_is_error", 1),
                    Ok(Ok(_)) => obs.violation("messages() on a compressed record is not an error", format!("record {} (BZ-marked body)", i), replay.clone()),
                    Err(p) => obs.violation(format!("messages {}", p.signature()), p.message, replay.clone()),
                }
                if let Err(p) = mon::catch(|| r.decompress().is_ok()) {
                    obs.violation(format!("decompress {}", p.signature()), p.message, replay.clone());
                }
            }
            Body::Plain(_) => {
                if want_compressed {
                    obs.violation("harness: plain body with BZ magic", "", replay.clone());
                    continue;
                }
                match mon::catch(|| r.decompress()) {
                    Ok(Err(_)) => obs.count("decompressing_uncompressed_record_is_error", 1),
                    Ok(Ok(_)) => obs.violation(
                        "decompress() on an uncompressed record is not an error",
                        format!("record {}", i),
                        replay.clone(),
                    ),
                    Err(p) => obs.violation(format!("decompress {}", p.signature()), p.message, replay.clone()),
                }
            }
        }
    }
    if obs.want_sample() && case_index % 41 == 2 {
        obs.sample(json!({"header": {"tape": hex_abbrev(&spec.header.tape, 9), "ext": hex_abbrev(&spec.header.ext, 3), "date": spec.header.date, "time": spec.header.time, "icao": hex_abbrev(&spec.header.icao, 4)},
            "record_sizes_with_prefix": sizes, "negative_prefixes": spec.bodies.iter().map(|b| b.1).collect::<Vec<_>>()}));
    }
}

/// Chunks: start chunk = volume header + one compressed record; intermediate = one compressed record.
fn check_chunks(obs: &mut Obs, rng: &mut Rng, case_index: u64) {
    let payload = gen_payload(rng, 4096);
    let body = enc::bzip2_compress(&payload, rng.range(1, 9) as u32);
    let rec = enc::ldm_record(&body, rng.chance(1, 2));
    let start = {
        let mut f = VolHeader::realistic(rng).encode().to_vec();
        f.extend_from_slice(&rec);
        f
    };
    obs.case(mix(55, mix(payload.len() as u64, case_index)));
    let replay = json!({"case_index": case_index, "chunk_hex": crate::ev::hex(&start[..start.len().min(8000)])});
    match mon::catch(|| Chunk::new(start.clone())) {
        Ok(Ok(Chunk::Start(f))) => {
            if f.data() != &start {
                obs.violation("Chunk::Start data differs from the input", "", replay.clone());
            } else {
                let recs = f.records();
                let ok = recs.len() == 1
                    && recs[0].data() == &rec[..]
                    && recs[0].decompress().map(|d| d.data() == &payload[..]).unwrap_or(false);
                if ok {
                    obs.count("start_chunks_classified_and_round_tripped", 1);
                } else {
                    obs.violation("start chunk record does not round-trip", "", replay.clone());
                }
            }
        }
        Ok(Ok(_)) => obs.violation("start chunk (AR2 header) not classified Start", "", replay.clone()),
        Ok(Err(e)) => obs.violation("Chunk::new refuses a well-formed start chunk", format!("{e:?}"), replay.clone()),
        Err(p) => obs.violation(format!("Chunk::new {}", p.signature()), p.message, replay.clone()),
    }
    match mon::catch(|| Chunk::new(rec.clone())) {
        Ok(Ok(c)) => {
            let data_ok = c.data() == &rec[..];
            match &c {
                Chunk::IntermediateOrEnd(r) => {
                    let rt = r.decompress().map(|d| d.data() == &payload[..]).unwrap_or(false);
                    if data_ok && rt && r.compressed() {
                        obs.count("intermediate_chunks_classified_and_round_tripped", 1);
                    } else {
                        obs.violation("intermediate chunk does not round-trip", "", replay.clone());
                    }
                }
                _ => obs.violation("intermediate chunk (BZ record) not classified IntermediateOrEnd", "", replay.clone()),
            }
        }
        Ok(Err(e)) => obs.violation("Chunk::new refuses a well-formed intermediate chunk", format!("{e:?}"), replay.clone()),
        Err(p) => obs.violation(format!("Chunk::new {}", p.signature()), p.message, replay.clone()),
    }
}

pub fn run(ctx: &mut Ctx) {
    ctx.rule = "a case is one generated container: 24-byte header (realistic, arbitrary ASCII or arbitrary bytes; dates/times in and out of range) + 0..40 records (bzip2 of random / constant / bzip2-looking / doubly-compressed / repeating payloads of 0 B..max, or plain bodies not starting with BZ), +/- size prefixes; plus start/intermediate chunks; \
trivial = no record; distinct = distinct sequences of (body kind, size class, prefix sign); oracle = tiling (count, order, data == prefix+body, concat == file[24..]), compressed() <=> BZ magic, decompress(payload record) == payload, decompress(plain) and messages(compressed) are errors, header accessors == written strings / calendar instant"
        .into();
    ctx.floor_evaluations = 100;
    let total: u64 = ctx.tier.pick(500, 120_000);
    let max_payload = ctx.tier.pick(64 * 1024, 300 * 1024);
    let seed = ctx.seed;
    par_cases(ctx, total, |i, obs| {
        let mut rng = Rng::derive(seed, 5, i);
        let mut spec = gen_container(&mut rng, if i % 10 == 0 { max_payload } else { 4096 });
        if i % 25 == 3 {
            // a payload larger than one bzip2 block at the smallest block size (level 1 = 100 kB):
            // the decompressor returns short reads at block boundaries
            let big = rng.bytes(rng.clone().urange(110_000, 260_000));
            spec.bodies.push((Body::Compressed { payload: big, level: 1 }, rng.chance(1, 2)));
        }
        if i % 50 == 7 {
            // records that expand a great deal: a few hundred kilobytes to a few megabytes of
            // repetitive data (real radar moments over clear air compress 20:1 and better), at
            // sizes around which an implementation's first guess at the output size stops sufficing
            let n = *rng.pick(&[325_888usize, 325_889, 400_000, 1 << 20, (1 << 20) + 1, 3_000_000]) + rng.usize_below(3);
            let payload: Vec<u8> = match rng.below(3) {
                0 => vec![rng.u8(); n],
                1 => {
                    let word = rng.bytes(rng.clone().urange(2, 40));
                    word.iter().cycle().take(n).cloned().collect()
                }
                _ => {
                    // long constant stretches with a sparse sprinkling of other bytes
                    let mut v = vec![0u8; n];
                    for _ in 0..n / 4000 {
                        let at = rng.usize_below(n);
                        v[at] = rng.u8();
                    }
                    v
                }
            };
            spec.bodies.push((Body::Compressed { payload, level: *rng.pick(&[1u32, 9]) }, rng.chance(1, 2)));
            obs.count("containers_with_a_record_that_expands_to_more_than_300_kilobytes", 1);
        }
        check_container(obs, &spec, i);
        if i % 4 == 0 {
            check_chunks(obs, &mut rng, i);
        }
    });
    // Headers alone, many of them, on all worker threads at once: files that hold nothing but the
    // 24 header bytes, every thread reading other dates than its neighbours at the same moment.
    // ... and in a tight loop: each case decodes thirty-two headers of different dates and then asks
    // every one of them for its instant eight times in a row - a quarter of a thousand accessor calls
    // back to back on every worker thread, each compared with the calendar.
    let tight: u64 = ctx.tier.pick(3_000, 100_000);
    par_cases(ctx, tight, |i, obs| {
        let mut rng = Rng::derive(seed, 56, i);
        let mut hs = Vec::new();
        for k in 0..32u64 {
            let mut w = VolHeader::realistic(&mut rng);
            w.date = 1 + ((i * 32 + k * 2_003) % 65_535) as u32;
            w.time = rng.below(86_400_000) as u32;
            let bytes = w.encode().to_vec();
            match mon::catch(|| File::new(bytes).header()) {
                Ok(Ok(h)) => hs.push((h, w.date, w.time)),
                Ok(Err(e)) => {
                    obs.violation("header of a header-only file refused", format!("{e:?}"), json!({"index": i}));
                    return;
                }
                Err(p) => {
                    obs.violation(format!("File::header {}", p.signature()), p.message, json!({"index": i}));
                    return;
                }
            }
        }
        obs.case(mix(58, i));
        // (every header is asked four times in a row, twice over: what a library remembers from the
        // call before is asked for again at once, while other threads are on other days)
        for round in 0..8 {
            for (h, date, time) in hs.iter().flat_map(|x| std::iter::repeat(x).take(if round < 2 { 4 } else { 1 })) {
                let want = cal::icd_epoch_ms(*date as u16, *time as u64);
                match mon::catch(|| h.date_time().map(|t| t.timestamp_millis())) {
                    Ok(Some(t)) if t == want => {}
                    Ok(other) => {
                        obs.violation("header date_time", format!("date {} time {} (round {} of a tight loop on all worker threads): expected epoch ms {}, got {:?}", date, time, round, want, other), json!({"scenario": "tight loop", "index": i, "date": date, "time": time}));
                        return;
                    }
                    Err(p) => {
                        obs.violation(format!("header date_time {}", p.signature()), p.message, json!({"index": i}));
                        return;
                    }
                }
            }
        }
        obs.count("header_instants_exact_in_tight_loops", 448);
    });
    let headers: u64 = ctx.tier.pick(60_000, 2_000_000);
    par_cases(ctx, headers, |i, obs| {
        let mut rng = Rng::derive(seed, 55, i);
        let mut w = VolHeader::realistic(&mut rng);
        w.date = match i % 4 {
            0 => 1 + (i / 4 % 65_535) as u32,
            1 => 19_000 + (i % 7) as u32,
            _ => rng.range(1, 65_535) as u32,
        };
        w.time = rng.below(86_400_000) as u32;
        let bytes = w.encode().to_vec();
        obs.case(mix(mix(57, w.date as u64), (w.time / 3_600_000) as u64));
        let want = cal::icd_epoch_ms(w.date as u16, w.time as u64);
        let replay = json!({"scenario": "header-only file", "index": i, "date": w.date, "time": w.time, "file_hex": crate::ev::hex(&bytes)});
        match mon::catch(|| File::new(bytes.clone()).header().map(|h| (h.date_time().map(|t| t.timestamp_millis()), h.icao_of_radar(), h.extension_number()))) {
            Ok(Ok((Some(t), icao, ext))) if t == want && icao == utf8_or_none(&w.icao) && ext == utf8_or_none(&w.ext) => obs.count("header_only_files_exact", 1),
            Ok(other) => obs.violation("header date_time", format!("date {} time {}: expected epoch ms {}, got {:?}", w.date, w.time, want, other.map_err(|e| format!("{e:?}"))), replay),
            Err(p) => obs.violation(format!("header date_time {}", p.signature()), p.message, replay),
        }
    });
}
