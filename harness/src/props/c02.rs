//! C02 — Type-31 radial messages decode field-exactly from the ICD layout.

use super::cmp31;
use crate::enc::{gen_msg31, msg31_bytes, MsgHeader};
use crate::ev::{hex_abbrev, par_cases, Ctx};
use crate::mon;
use crate::rng::Rng;
use nexrad_decode::messages::digital_radar_data::decode_digital_radar_data;
use nexrad_decode::messages::{decode_messages, MessageContents};
use serde_json::json;
use std::io::Cursor;

pub fn run(ctx: &mut Ctx) {
    ctx.rule = "each case is one type-31 message written by the hand-coded encoder (explicit ICD offsets, distinct value per scalar field) and decoded by the real decoder (directly, or through decode_messages for every third case); \
non-trivial = has >= 1 data block; distinct = distinct (block subset, pointer order, physical order, gap pattern, gate-count class, word size, scale==0); oracle = every public field equals the value written at its offset (floats by bit pattern), presence iff encoded, gate bytes intact and of length gates x word/8"
        .into();
    ctx.exhaustive = Some("all 2^10 block subsets appear (each at least twice: contiguous and permuted layout)".into());
    ctx.assumptions = vec![
        "type-31 byte offsets of DESIGN.md Appendix A (hand-transcribed from ICD 2620002W Tables XVII-A..E)".into(),
        "duplicate block names and zero pointers inside data_block_count are not well-formed and are not generated".into(),
    ];
    let total: u64 = ctx.tier.pick(250_000, 12_000_000);
    ctx.floor_evaluations = 2_048;
    let seed = ctx.seed;

    // A long, monotonous history on one thread, then a change: 66,000 surveillance-like radials
    // (VOL, ELV, RAD, REF only), then full ten-block radials.  Counters that wrap after 2^16
    // events, tables that fill up, batches flushed every N-th item all sit quietly through random
    // workloads; each message is checked as any other.
    {
        let mut obs = crate::ev::Obs::new();
        let mut rng = Rng::derive(seed, 2, u64::MAX);
        let n = 66_000u64;
        for k in 0..n + 40 {
            // the six remaining products appear for the first time right at the places where a
            // 15- or 16-bit counter of messages turns over: one each at message 32767, 32768, 32769,
            // 65535, 65536 and 65537 of the thread
            let m = k + 1;
            let mut subset: u16 = if k < n { 0b0000001111 } else { 0b1111111111 };
            for (slot, first) in [(4u16, 32_767u64), (5, 32_768), (6, 32_769), (7, 65_535), (8, 65_536), (9, 65_537)] {
                if m >= first {
                    subset |= 1 << slot;
                }
            }
            let mut spec = gen_msg31(&mut rng, subset, false, false);
            for b in spec.blocks.iter_mut() {
                if let crate::enc::Block::Mom(m) = b {
                    m.gates %= 4;
                    m.data.truncate(m.gates as usize * (m.word as usize / 8));
                }
            }
            let body = spec.encode(&mut rng);
            match mon::catch(|| decode_digital_radar_data(&mut Cursor::new(&body[..]))) {
                Ok(Ok(m)) => {
                    if let Some(d) = cmp31::compare(&spec, &m).first() {
                        obs.violation(format!("field {}", d.field), format!("{} [message {} of a long run on one thread]", d.detail, k + 1), json!({"long_run_message": k + 1, "subset": subset}));
                        break;
                    }
                }
                Ok(Err(e)) => {
                    obs.violation("well-formed message refused: decode error", format!("{e:?} [message {} of a long run on one thread]", k + 1), json!({"long_run_message": k + 1}));
                    break;
                }
                Err(p) => {
                    obs.violation(format!("well-formed message refused: {}", p.signature()), p.message, json!({"long_run_message": k + 1}));
                    break;
                }
            }
        }
        obs.count("messages_of_the_long_run_on_one_thread", n + 40);
        ctx.obs.merge(obs);
    }
    par_cases(ctx, total, |i, obs| {
        let mut rng = Rng::derive(seed, 2, i);
        // the first 2048 cases enumerate all subsets in both layouts; the rest are random subsets
        let subset: u16 = if i < 2048 { (i / 2) as u16 } else { rng.below(1024) as u16 };
        let permute = if i < 2048 { i % 2 == 1 } else { rng.chance(1, 2) };
        let big = rng.chance(1, 25);
        let spec = gen_msg31(&mut rng, subset, permute, big);
        let mut body = spec.encode(&mut rng);
        // The one-letter block type in front of the name ('R' / 'D') is a field like any other: it is
        // the three-character *name* that designates the product.  One message in twelve carries one
        // arbitrary type byte on every block (the same on all, so it is known what was written).
        let patched_type: Option<u8> = if i % 12 == 7 && !spec.blocks.is_empty() { Some(*rng.pick(&[b'D', b'R', b'd', b'r', 0u8, 0xFF, b' ', b'X'])) } else { None };
        if let Some(t) = patched_type {
            for k in 0..spec.blocks.len() {
                let p = u32::from_be_bytes([body[32 + 4 * k], body[33 + 4 * k], body[34 + 4 * k], body[35 + 4 * k]]) as usize;
                body[p] = t;
            }
            obs.count("messages_with_an_arbitrary_block_type_byte", 1);
        }
        if spec.blocks.is_empty() {
            obs.case_trivial();
        } else {
            obs.case(cmp31::shape(&spec));
        }
        let replay = json!({"subset": subset, "permute": permute, "case_index": i, "body_hex": crate::ev::hex(&body[..body.len().min(4096)]), "body_len": body.len()});
        // the stream decoder resumes where the last-pointed block ends, so only layouts whose
        // last-pointed block is physically last can be framed as a stream (C03 owns framing)
        let via_stream = i % 3 == 0 && spec.is_frameable();
        let decoded = if via_stream {
            let mh = MsgHeader::realistic(&mut rng, 31);
            let bytes = msg31_bytes(&mh, &body);
            match mon::catch(|| decode_messages(&mut Cursor::new(&bytes[..]))) {
                Err(p) => Err(format!("{}|{}", p.signature(), p.message)),
                Ok(Err(e)) => Err(format!("decode error|{e:?}")),
                Ok(Ok(mut v)) => {
                    if v.len() != 1 {
                        Err(format!("decode_messages count|{} messages from one", v.len()))
                    } else {
                        match v.remove(0).into_contents() {
                            MessageContents::DigitalRadarData(m) => Ok(*m),
                            other => Err(format!("decode_messages routing|type 31 surfaced as {:?}", std::mem::discriminant(&other))),
                        }
                    }
                }
            }
        } else {
            // a quarter of the direct decodes go through a reader that returns short reads
            let r = if i % 4 == 1 {
                obs.count("decoded_through_short_read_reader", 1);
                let mut rd = mon::DribbleReader::new(Cursor::new(&body[..]), i);
                mon::catch(|| decode_digital_radar_data(&mut rd))
            } else {
                mon::catch(|| decode_digital_radar_data(&mut Cursor::new(&body[..])))
            };
            match r {
                Err(p) => Err(format!("{}|{}", p.signature(), p.message)),
                Ok(Err(e)) => Err(format!("decode error|{e:?}")),
                Ok(Ok(m)) => Ok(m),
            }
        };
        match decoded {
            Err(e) => {
                let (sig, detail) = e.split_once('|').unwrap_or((&e, ""));
                obs.violation(format!("well-formed message refused: {}", sig), detail.to_string(), replay);
            }
            Ok(m) => {
                // one result in four is examined through a clone: a copy reports what the original does
                let m = if i % 4 == 2 { obs.count("results_examined_through_a_clone", 1); m.clone() } else { m };
                let mut diffs = cmp31::compare(&spec, &m);
                if let Some(t) = patched_type {
                    // the comparer expects the standard letters: what must be found is the byte written
                    let expected = format!("decoded {:?}", t);
                    diffs.retain(|d| !(d.field.ends_with(".data_block_type") && d.detail.ends_with(&expected)));
                    if [b'D', b'R'].contains(&t) {
                        // the standard letter of the *other* family on some blocks: those that carry their
                        // own letter produced no diff, the others were retained above; nothing else to do
                    }
                }
                if diffs.is_empty() {
                    obs.count("messages_field_exact", 1);
                    obs.count("blocks_checked", spec.blocks.len() as u64);
                    if via_stream {
                        obs.count("decoded_through_decode_messages", 1);
                    }
                } else {
                    for d in diffs.iter().take(4) {
                        obs.violation(format!("field {}", d.field), d.detail.clone(), replay.clone());
                    }
                }
            }
        }
        // a reader that fails once, transiently, inside the message: an error is fine, the right
        // message is fine, one put together from other bytes is not
        if i % 16 == 9 {
            match super::decode_through_flaky_reader(&body, i, |rd| decode_digital_radar_data(rd)) {
                Err(p) => obs.violation("decode_digital_radar_data panics with a reader that fails transiently", p, json!({"case_index": i})),
                Ok(Some(m2)) => {
                    let diffs = cmp31::compare(&spec, &m2);
                    if patched_type.is_none() {
                        for d in diffs.iter().take(2) {
                            obs.violation(format!("field {}", d.field), format!("{} [after a transient read error inside the message]", d.detail), json!({"case_index": i, "subset": subset}));
                        }
                    }
                    obs.count("transient_read_errors_survived", 1);
                }
                Ok(None) => obs.count("transient_read_errors_reported_as_errors", 1),
            }
        }
        // A *namesake*: one case in sixteen is followed at once, on the same thread, by a different
        // message that shares this one's identity fields (radar, date, time, azimuth and elevation
        // numbers) - the same cut seen in another volume scan, say.  Everything else is drawn afresh,
        // and it must decode to its own contents.
        if i % 16 == 3 {
            let mut rng2 = Rng::derive(seed, 2002, i);
            let subset2 = if rng2.chance(1, 2) { subset } else { rng2.below(1024) as u16 };
            let permute2 = rng2.chance(1, 2);
            let mut twin = gen_msg31(&mut rng2, subset2, permute2, false);
            twin.hdr.id = spec.hdr.id;
            twin.hdr.date = spec.hdr.date;
            twin.hdr.elev_num = spec.hdr.elev_num;
            if rng2.chance(1, 2) {
                twin.hdr.time = spec.hdr.time;
                twin.hdr.az_num = spec.hdr.az_num;
            }
            twin.hdr.status = *rng2.pick(&[0u8, 1, 1, 2, 3, 4, 5]);
            let body2 = twin.encode(&mut rng2);
            let replay2 = json!({"case_index": i, "namesake_of_the_previous_message": true, "body_hex": crate::ev::hex(&body2[..body2.len().min(4096)]), "body_len": body2.len()});
            match mon::catch(|| decode_digital_radar_data(&mut Cursor::new(&body2[..]))) {
                Ok(Ok(m2)) => {
                    let diffs = cmp31::compare(&twin, &m2);
                    if diffs.is_empty() {
                        obs.count("namesake_messages_field_exact", 1);
                    }
                    for d in diffs.iter().take(3) {
                        obs.violation(format!("field {}", d.field), format!("{} [a message sharing identity fields with the one decoded just before]", d.detail), replay2.clone());
                    }
                }
                Ok(Err(e)) => obs.violation("well-formed message refused: decode error", format!("{e:?} [namesake]"), replay2),
                Err(p) => obs.violation(format!("well-formed message refused: {}", p.signature()), p.message, replay2),
            }
        }
        if obs.want_sample() && i % 997 == 3 {
            obs.sample(json!({
                "subset_bits": format!("{:010b}", subset),
                "pointer_order": spec.blocks.iter().map(|b| String::from_utf8_lossy(&b.name()).to_string()).collect::<Vec<_>>(),
                "physical_order": spec.phys, "gaps": spec.gaps,
                "body": hex_abbrev(&body, 96), "body_len": body.len(),
            }));
        }
    });
}
