//! C01 — Volume-to-scan conversion conserves every radial.

use super::c09::reference_runs;
use crate::ev::{par_cases, Ctx, Obs};
use crate::mon;
use crate::rng::{mix, Rng};
use crate::volgen::{gen_volume, ElevPattern, VolParams, VolumeSpec};
use nexrad_data::volume::File;
use serde_json::json;

pub fn check_volume(obs: &mut Obs, spec: &VolumeSpec, label: &str, case_index: u64) {
    let bytes = spec.build();
    let expected = spec.expected_radials();
    let elevs: Vec<u8> = expected.iter().map(|r| r.elevation_number()).collect();
    let runs = reference_runs(&elevs);
    let nmeta = spec.items.len() - expected.len();
    let shape = mix(
        mix(runs.len() as u64, expected.len() as u64),
        mix(
            spec.record_starts.len() as u64,
            mix(nmeta as u64, runs.last().map(|r| r.1).unwrap_or(0) as u64),
        ),
    );
    if expected.is_empty() {
        obs.case_trivial();
    } else {
        obs.case(shape);
    }
    let replay = json!({"case_index": case_index, "pattern": label, "runs": runs.iter().take(64).collect::<Vec<_>>(),
        "records": spec.record_starts.len(), "metadata_frames": nmeta, "file_len": bytes.len(),
        "file_hex": crate::ev::hex(&bytes[..bytes.len().min(20_000)])});
    let file = File::new(bytes);
    let scan = match mon::catch(|| file.scan()) {
        Err(p) => {
            obs.violation(format!("scan {}", p.signature()), p.message, replay);
            return;
        }
        Ok(Err(e)) => {
            obs.violation(
                "scan refuses a well-formed volume",
                format!("{e:?} [{label}]"),
                replay,
            );
            return;
        }
        Ok(Ok(s)) => s,
    };
    // one scan in four is examined through a clone (of the file before, of the scan after)
    let scan = if case_index % 4 == 1 {
        obs.count("scans_examined_through_a_clone", 1);
        match mon::catch(|| file.clone().scan()) {
            Ok(Ok(s2)) if s2 == scan => s2.clone(),
            _ => {
                obs.violation("scan of a cloned file differs from the scan of the file", "", replay);
                return;
            }
        }
    } else {
        scan
    };
    let got: Vec<&nexrad_model::data::Radial> =
        scan.sweeps().iter().flat_map(|s| s.radials().iter()).collect();
    // conservation, identity = unique timestamp
    let got_ids: Vec<i64> = got.iter().map(|r| r.collection_timestamp()).collect();
    let want_ids: Vec<i64> = expected.iter().map(|r| r.collection_timestamp()).collect();
    if got_ids != want_ids {
        let mut g = got_ids.clone();
        let mut w = want_ids.clone();
        g.sort();
        w.sort();
        let sig = if got_ids.len() < want_ids.len() && want_ids.starts_with(&got_ids) {
            if want_ids.len() - got_ids.len() == runs.last().map(|r| r.1).unwrap_or(0) {
                "scan loses the final elevation's radials"
            } else {
                "scan loses a tail of radials"
            }
        } else if g == w {
            "scan reorders radials"
        } else if got_ids.len() > want_ids.len() {
            "scan has extra radials"
        } else {
            "scan loses radials"
        };
        obs.violation(
            sig,
            format!(
                "file holds {} radials in runs {:?}; scan holds {}",
                want_ids.len(),
                &runs[..runs.len().min(12)],
                got_ids.len()
            ),
            replay,
        );
        return;
    }
    for (i, (g, w)) in got.iter().zip(expected.iter()).enumerate() {
        // equal by the model's own `==` *and* equal in everything the accessors report
        if **g != *w || crate::volgen::radial_fingerprint(g) != crate::volgen::radial_fingerprint(w) {
            obs.violation(
                "scan alters a radial",
                format!("radial {}: expected {:?}..., observed {:?}...", i,
                    (w.azimuth_number(), w.azimuth_angle_degrees(), w.azimuth_spacing_degrees(), w.radial_status(), w.elevation_number(), w.elevation_angle_degrees()),
                    (g.azimuth_number(), g.azimuth_angle_degrees(), g.azimuth_spacing_degrees(), g.radial_status(), g.elevation_number(), g.elevation_angle_degrees())),
                replay,
            );
            return;
        }
    }
    // grouping: maximal runs
    if scan.sweeps().len() != runs.len() {
        obs.violation(
            "scan sweeps are not the maximal elevation runs",
            format!("expected {} sweeps, observed {}", runs.len(), scan.sweeps().len()),
            replay,
        );
        return;
    }
    for (i, (s, (e, n))) in scan.sweeps().iter().zip(runs.iter()).enumerate() {
        if s.elevation_number() != *e || s.radials().len() != *n || s.radials().is_empty() {
            obs.violation(
                "scan sweeps are not the maximal elevation runs",
                format!(
                    "sweep {}: expected elevation {} x{}, observed {} x{}",
                    i,
                    e,
                    n,
                    s.elevation_number(),
                    s.radials().len()
                ),
                replay,
            );
            return;
        }
    }
    // VCP of the first volume block
    let want_vcp = spec.expected_vcp();
    if Some(scan.coverage_pattern_number()) != want_vcp {
        obs.violation(
            "coverage pattern is not the first volume block's",
            format!("expected {:?}, observed {}", want_vcp, scan.coverage_pattern_number()),
            replay,
        );
        return;
    }
    obs.count("volumes_conserved", 1);
    obs.count("radials_conserved", expected.len() as u64);
    obs.count("sweeps_checked", runs.len() as u64);
    obs.count("metadata_frames_ignored", nmeta as u64);
    obs.max("records_in_a_volume", spec.record_starts.len() as u64);
    obs.max("elevation_runs_in_a_volume", runs.len() as u64);
    obs.max("radials_in_a_volume", expected.len() as u64);
    if obs.want_sample() && case_index % 37 == 1 {
        obs.sample(json!({"pattern": label, "runs": runs.iter().take(16).collect::<Vec<_>>(), "radials": expected.len(),
            "records": spec.record_starts.len(), "metadata_frames": nmeta, "vcp": want_vcp}));
    }
}

pub fn params_for(rng: &mut Rng, i: u64, thorough: bool) -> (VolParams, &'static str) {
    let (pattern, label) = match i % 8 {
        0 => (ElevPattern::Single, "single-elevation"),
        1 => (ElevPattern::OneRadial, "single-radial"),
        2 => (ElevPattern::Increasing, "increasing"),
        3 => (ElevPattern::Sails, "sails-1,2,1,3"),
        4 => (ElevPattern::RunsOfOne, "runs-of-one"),
        5 if i % 40 == 5 => (ElevPattern::Many255, "255-elevations"),
        5 => (ElevPattern::Increasing, "increasing"),
        6 => (ElevPattern::Sails, "sails-1,2,1,3"),
        _ => (ElevPattern::Increasing, "increasing"),
    };
    let big = thorough && i % 50 == 7;
    let radials_per_run = if big {
        (720, 720)
    } else if rng.chance(1, 10) {
        (1, 1)
    } else {
        (1, *rng.pick(&[3usize, 10, 40]))
    };
    (
        VolParams {
            pattern,
            radials_per_run,
            max_gates: if big { 16 } else { *rng.pick(&[0u16, 8, 64, 1840]) },
            meta_density: *rng.pick(&[0u64, 2, 10, 50]),
        },
        label,
    )
}

pub fn run(ctx: &mut Ctx) {
    ctx.rule = "a case is one generated Archive II volume (24-byte header + message stream of type-31 radials with unique timestamps and interleaved metadata frames, cut at message boundaries into bzip2 LDM records with +/- size prefixes) converted by File::scan; \
trivial = no radial; distinct = distinct (elevation runs, radial count, record count, metadata count, final-run length); oracle = the generator's own radial list built with the model's public constructors: concat(sweeps) == expected element-wise, sweeps == maximal elevation runs, VCP == first VOL block's"
        .into();
    ctx.assumptions = vec![
        "messages never straddle LDM records (each record is decoded independently)".into(),
        "RPG header bytes are zero as in real Archive II data; 16-bit moments compared as raw bytes (C07 owns their values)".into(),
    ];
    ctx.floor_evaluations = 100;
    let total: u64 = ctx.tier.pick(4_000, 60_000);
    let seed = ctx.seed;
    let thorough = ctx.tier == crate::ev::Tier::Thorough;
    par_cases(ctx, total, |i, obs| {
        let mut rng = Rng::derive(seed, 1, i);
        let (p, label) = params_for(&mut rng, i, thorough);
        let spec = gen_volume(&mut rng, &p);
        check_volume(obs, &spec, label, i);
        // one volume in five is followed at once by a sibling: same header bytes, same file length,
        // the same records in another order - a different volume that looks the same from outside
        // two volumes per run (thorough: sixteen) hold everything in ONE record of several
        // mebibytes - a whole volume scan compressed in one piece, as some archives are written
        let whole = if thorough { 16 } else { 2 };
        if i < whole {
            let p = VolParams { pattern: ElevPattern::Increasing, radials_per_run: (500, 720), max_gates: 1800, meta_density: 200 };
            let mut big = gen_volume(&mut rng, &p);
            big.record_starts = vec![0];
            big.negative_prefix.truncate(1);
            big.levels.truncate(1);
            obs.count("volumes_held_in_one_record_of_several_mebibytes", 1);
            obs.max("largest_record_payload_bytes", big.payloads().first().map(|p| p.len() as u64).unwrap_or(0));
            check_volume(obs, &big, "whole-volume-in-one-record", i);
        }
        // one volume per run (thorough: four) with more than 65,536 radials: 255 cuts of some 270
        // radials each (the statement's domain goes to 255 x 720)
        if (i == 3 && !thorough) || (thorough && i >= 3 && i < 7) {
            let p = VolParams { pattern: ElevPattern::ManyLong, radials_per_run: (258, 290), max_gates: 0, meta_density: 4000 };
            let long = gen_volume(&mut rng, &p);
            obs.count("volumes_of_more_than_65536_radials", 1);
            check_volume(obs, &long, "more-than-65536-radials", i);
        }
        if i % 5 == 2 {
            if let Some(sib) = spec.with_records_reordered(&mut rng) {
                obs.count("sibling_volumes_with_the_same_header_and_length", 1);
                check_volume(obs, &sib, "sibling-same-header-and-length", i);
            }
        }
    });
}
