//! Field-by-field comparison of a decoded type-31 message with the generator's spec.

use crate::enc::{Block, Moment, Msg31};
use nexrad_decode::messages::digital_radar_data as drd;

pub struct Diff {
    pub field: String,
    pub detail: String,
}

macro_rules! eq {
    ($diffs:expr, $blk:expr, $name:expr, $got:expr, $want:expr) => {
        if $got != $want {
            $diffs.push(Diff {
                field: format!("{}.{}", $blk, $name),
                detail: format!("wrote {:?}, decoded {:?}", $want, $got),
            });
        }
    };
}
macro_rules! eqf {
    ($diffs:expr, $blk:expr, $name:expr, $got:expr, $want:expr) => {
        if $got.to_bits() != $want.to_bits() {
            $diffs.push(Diff {
                field: format!("{}.{}", $blk, $name),
                detail: format!(
                    "wrote {:?} ({:#010x}), decoded {:?} ({:#010x})",
                    $want,
                    $want.to_bits(),
                    $got,
                    $got.to_bits()
                ),
            });
        }
    };
}

fn cmp_moment(diffs: &mut Vec<Diff>, slot: &str, got: &drd::GenericDataBlock, want: &Moment) {
    let h = &got.header;
    eq!(diffs, slot, "data_block_type", h.data_block_id.data_block_type, b'D');
    eq!(diffs, slot, "data_name", h.data_block_id.data_name, want.name);
    eq!(diffs, slot, "reserved", h.reserved, want.reserved);
    eq!(diffs, slot, "number_of_data_moment_gates", h.number_of_data_moment_gates, want.gates);
    eq!(diffs, slot, "data_moment_range", h.data_moment_range, want.range);
    eq!(
        diffs,
        slot,
        "data_moment_range_sample_interval",
        h.data_moment_range_sample_interval,
        want.interval
    );
    eq!(diffs, slot, "tover", h.tover, want.tover);
    eq!(diffs, slot, "snr_threshold", h.snr_threshold, want.snr);
    eq!(diffs, slot, "control_flags", h.control_flags, want.flags);
    eq!(diffs, slot, "data_word_size", h.data_word_size, want.word);
    eqf!(diffs, slot, "scale", h.scale, want.scale);
    eqf!(diffs, slot, "offset", h.offset, want.offset);
    let expect_len = want.gates as usize * (want.word as usize / 8);
    if got.encoded_data.len() != expect_len {
        diffs.push(Diff {
            field: format!("{}.encoded_data.len", slot),
            detail: format!(
                "gates {} x word {} bits => {} bytes, decoded {} bytes",
                want.gates,
                want.word,
                expect_len,
                got.encoded_data.len()
            ),
        });
    } else if got.encoded_data != want.data {
        let at = got
            .encoded_data
            .iter()
            .zip(want.data.iter())
            .position(|(a, b)| a != b)
            .unwrap_or(0);
        diffs.push(Diff {
            field: format!("{}.encoded_data", slot),
            detail: format!("gate bytes differ first at byte {}", at),
        });
    }
    if got.encoded_values() != &want.data[..] && got.encoded_data == want.data {
        diffs.push(Diff {
            field: format!("{}.encoded_values()", slot),
            detail: "accessor differs from the field".into(),
        });
    }
}

/// Compare; returns the list of differing fields (empty = field-exact).
pub fn compare(spec: &Msg31, got: &drd::Message) -> Vec<Diff> {
    let mut d = Vec::new();
    let h = &got.header;
    let w = &spec.hdr;
    eq!(d, "header", "radar_identifier", h.radar_identifier, w.id);
    eq!(d, "header", "time", h.time, w.time);
    eq!(d, "header", "date", h.date, w.date);
    eq!(d, "header", "azimuth_number", h.azimuth_number, w.az_num);
    eqf!(d, "header", "azimuth_angle", h.azimuth_angle, w.az);
    eq!(d, "header", "compression_indicator", h.compression_indicator, w.comp);
    eq!(d, "header", "spare", h.spare, w.spare);
    eq!(d, "header", "radial_length", h.radial_length, w.len);
    eq!(d, "header", "azimuth_resolution_spacing", h.azimuth_resolution_spacing, w.spacing);
    eq!(d, "header", "radial_status", h.radial_status, w.status);
    eq!(d, "header", "elevation_number", h.elevation_number, w.elev_num);
    eq!(d, "header", "cut_sector_number", h.cut_sector_number, w.sector);
    eqf!(d, "header", "elevation_angle", h.elevation_angle, w.elev);
    eq!(d, "header", "radial_spot_blanking_status", h.radial_spot_blanking_status, w.blanking);
    eq!(d, "header", "azimuth_indexing_mode", h.azimuth_indexing_mode, w.indexing);
    eq!(d, "header", "data_block_count", h.data_block_count as usize, spec.blocks.len());

    let find = |slot: usize| spec.blocks.iter().find(|b| b.slot() == slot);

    // VOL
    match (find(0), &got.volume_data_block) {
        (Some(Block::Vol(w)), Some(g)) => {
            eq!(d, "VOL", "data_block_type", g.data_block_id.data_block_type, b'R');
            eq!(d, "VOL", "data_name", g.data_block_id.data_name, *b"VOL");
            eq!(d, "VOL", "lrtup", g.lrtup, w.lrtup);
            eq!(d, "VOL", "major_version_number", g.major_version_number, w.major);
            eq!(d, "VOL", "minor_version_number", g.minor_version_number, w.minor);
            eqf!(d, "VOL", "latitude", g.latitude, w.lat);
            eqf!(d, "VOL", "longitude", g.longitude, w.lon);
            eq!(d, "VOL", "site_height", g.site_height, w.site_height);
            eq!(d, "VOL", "feedhorn_height", g.feedhorn_height, w.feedhorn);
            eqf!(d, "VOL", "calibration_constant", g.calibration_constant, w.calib);
            eqf!(d, "VOL", "horizontal_shv_tx_power", g.horizontal_shv_tx_power, w.tx_h);
            eqf!(d, "VOL", "vertical_shv_tx_power", g.vertical_shv_tx_power, w.tx_v);
            eqf!(
                d,
                "VOL",
                "system_differential_reflectivity",
                g.system_differential_reflectivity,
                w.sys_zdr
            );
            eqf!(
                d,
                "VOL",
                "initial_system_differential_phase",
                g.initial_system_differential_phase,
                w.init_dp
            );
            eq!(d, "VOL", "volume_coverage_pattern_number", g.volume_coverage_pattern_number, w.vcp);
            eq!(d, "VOL", "processing_status", g.processing_status, w.processing);
            eq!(
                d,
                "VOL",
                "zdr_bias_estimate_weighted_mean",
                g.zdr_bias_estimate_weighted_mean,
                w.zdr_bias
            );
            eq!(d, "VOL", "spare", g.spare, w.spare);
        }
        (None, None) => {}
        (Some(_), None) => d.push(Diff {
            field: "VOL.presence".into(),
            detail: "encoded, reported absent".into(),
        }),
        (None, Some(_)) => d.push(Diff {
            field: "VOL.presence".into(),
            detail: "not encoded, reported present".into(),
        }),
        _ => {}
    }
    // ELV
    match (find(1), &got.elevation_data_block) {
        (Some(Block::Elv(w)), Some(g)) => {
            eq!(d, "ELV", "data_block_type", g.data_block_id.data_block_type, b'R');
            eq!(d, "ELV", "data_name", g.data_block_id.data_name, *b"ELV");
            eq!(d, "ELV", "lrtup", g.lrtup, w.lrtup);
            eq!(d, "ELV", "atmos", g.atmos, w.atmos);
            eqf!(d, "ELV", "calibration_constant", g.calibration_constant, w.calib);
        }
        (None, None) => {}
        (Some(_), None) => d.push(Diff {
            field: "ELV.presence".into(),
            detail: "encoded, reported absent".into(),
        }),
        (None, Some(_)) => d.push(Diff {
            field: "ELV.presence".into(),
            detail: "not encoded, reported present".into(),
        }),
        _ => {}
    }
    // RAD
    match (find(2), &got.radial_data_block) {
        (Some(Block::Rad(w)), Some(g)) => {
            eq!(d, "RAD", "data_block_type", g.data_block_id.data_block_type, b'R');
            eq!(d, "RAD", "data_name", g.data_block_id.data_name, *b"RAD");
            eq!(d, "RAD", "lrtup", g.lrtup, w.lrtup);
            eq!(d, "RAD", "unambiguous_range", g.unambiguous_range, w.unamb_range);
            eqf!(
                d,
                "RAD",
                "horizontal_channel_noise_level",
                g.horizontal_channel_noise_level,
                w.noise_h
            );
            eqf!(
                d,
                "RAD",
                "vertical_channel_noise_level",
                g.vertical_channel_noise_level,
                w.noise_v
            );
            eq!(d, "RAD", "nyquist_velocity", g.nyquist_velocity, w.nyquist);
            eq!(d, "RAD", "radial_flags", g.radial_flags, w.flags);
            eqf!(
                d,
                "RAD",
                "horizontal_channel_calibration_constant",
                g.horizontal_channel_calibration_constant,
                w.calib_h
            );
            eqf!(
                d,
                "RAD",
                "vertical_channel_calibration_constant",
                g.vertical_channel_calibration_constant,
                w.calib_v
            );
        }
        (None, None) => {}
        (Some(_), None) => d.push(Diff {
            field: "RAD.presence".into(),
            detail: "encoded, reported absent".into(),
        }),
        (None, Some(_)) => d.push(Diff {
            field: "RAD.presence".into(),
            detail: "not encoded, reported present".into(),
        }),
        _ => {}
    }
    // moments
    let slots: [(&str, usize, &Option<drd::GenericDataBlock>); 7] = [
        ("REF", 3, &got.reflectivity_data_block),
        ("VEL", 4, &got.velocity_data_block),
        ("SW", 5, &got.spectrum_width_data_block),
        ("ZDR", 6, &got.differential_reflectivity_data_block),
        ("PHI", 7, &got.differential_phase_data_block),
        ("RHO", 8, &got.correlation_coefficient_data_block),
        ("CFP", 9, &got.specific_diff_phase_data_block),
    ];
    for (name, slot, g) in slots {
        match (find(slot), g) {
            (Some(Block::Mom(w)), Some(g)) => cmp_moment(&mut d, name, g, w),
            (None, None) => {}
            (Some(_), None) => d.push(Diff {
                field: format!("{}.presence", name),
                detail: "encoded, reported absent".into(),
            }),
            (None, Some(_)) => d.push(Diff {
                field: format!("{}.presence", name),
                detail: "not encoded, reported present".into(),
            }),
            _ => {}
        }
    }
    d
}

/// Shape signature of a spec: subset, pointer order, physical order, gap pattern, gate/word classes.
pub fn shape(spec: &Msg31) -> u64 {
    use crate::rng::mix;
    let mut h = 0x31u64;
    for b in &spec.blocks {
        h = mix(h, b.slot() as u64);
        if let Block::Mom(m) = b {
            let gc = match m.gates {
                0 => 0u64,
                1 => 1,
                2..=64 => 2,
                65..=1839 => 3,
                1840 => 4,
                _ => 5,
            };
            h = mix(h, gc * 3 + (m.word / 8) as u64);
            h = mix(h, (m.scale == 0.0) as u64);
        }
    }
    for (k, p) in spec.phys.iter().enumerate() {
        h = mix(h, *p as u64 * 2 + (spec.gaps.get(k).copied().unwrap_or(0) > 0) as u64);
    }
    h
}
