//! Observation recording, verdict discipline, evidence files, known findings, parallel driver.

use serde_json::{json, Map, Value};
use std::collections::{BTreeMap, HashSet};
use std::path::PathBuf;
use std::time::Instant;

#[derive(Clone, Copy, PartialEq, Eq, Debug)]
pub enum Tier {
    Quick,
    Thorough,
}

impl Tier {
    pub fn name(&self) -> &'static str {
        match self {
            Tier::Quick => "quick",
            Tier::Thorough => "thorough",
        }
    }
    pub fn pick<T>(&self, quick: T, thorough: T) -> T {
        match self {
            Tier::Quick => quick,
            Tier::Thorough => thorough,
        }
    }
}

#[derive(Clone, Debug)]
pub struct Violation {
    /// Stable identity of the failing class (call site / minimal input class).
    pub signature: String,
    /// Human-readable: expected vs observed.
    pub detail: String,
    /// Everything needed to re-run this one case.
    pub replay: Value,
}

const MAX_SAMPLES: usize = 5;
const MAX_VIOLATIONS_KEPT: usize = 40;

/// Observations of one worker (or the merged total).
#[derive(Default)]
pub struct Obs {
    pub evaluations: u64,
    pub trivial: u64,
    pub shapes: HashSet<u64>,
    pub samples: Vec<Value>,
    pub violations: Vec<Violation>,
    pub violation_count: u64,
    pub violation_sigs: BTreeMap<String, u64>,
    pub counters: BTreeMap<String, u64>,
    pub maxima: BTreeMap<String, u64>,
    /// named sets of hashes whose sizes are reported as distinct counts (e.g. request traces)
    pub sets: BTreeMap<String, HashSet<u64>>,
    pub notes: Vec<String>,
    pub inconclusive: Vec<String>,
    pub env_skips: Vec<String>,
}

impl Obs {
    pub fn new() -> Self {
        Self::default()
    }

    /// One non-trivial case with its shape signature (hash of the *shape*, not of the bytes).
    pub fn case(&mut self, shape: u64) {
        self.evaluations += 1;
        self.shapes.insert(shape);
    }

    /// One case that is trivial by the property's rule (counted, not distinct).
    pub fn case_trivial(&mut self) {
        self.evaluations += 1;
        self.trivial += 1;
    }

    pub fn want_sample(&self) -> bool {
        self.samples.len() < MAX_SAMPLES
    }

    pub fn sample(&mut self, v: Value) {
        if self.samples.len() < MAX_SAMPLES {
            self.samples.push(v);
        }
    }

    pub fn count(&mut self, key: &str, n: u64) {
        *self.counters.entry(key.to_string()).or_insert(0) += n;
    }

    pub fn max(&mut self, key: &str, v: u64) {
        let e = self.maxima.entry(key.to_string()).or_insert(0);
        if v > *e {
            *e = v;
        }
    }

    pub fn violation(&mut self, signature: impl Into<String>, detail: impl Into<String>, replay: Value) {
        let signature = signature.into();
        let mut detail: String = detail.into();
        if detail.len() > 4_000 {
            let mut cut = 4_000;
            while !detail.is_char_boundary(cut) {
                cut -= 1;
            }
            detail.truncate(cut);
            detail.push_str(" ...");
        }
        self.violation_count += 1;
        let n = self.violation_sigs.entry(signature.clone()).or_insert(0);
        *n += 1;
        // keep the first witness of each signature (bounded)
        if *n == 1 && self.violations.len() < MAX_VIOLATIONS_KEPT {
            self.violations.push(Violation {
                signature,
                detail,
                replay,
            });
        }
    }

    pub fn distinct(&mut self, key: &str, h: u64) {
        self.sets.entry(key.to_string()).or_default().insert(h);
    }

    pub fn inconclusive(&mut self, why: impl Into<String>) {
        self.inconclusive.push(why.into());
    }

    /// A case that could not be run because of the harness's own environment (a loopback
    /// connection that could not be established): it says nothing about the code under test.  The
    /// case is counted and skipped; only when such cases exceed 2 % of the run (and 5 cases) is the
    /// run as a whole inconclusive.
    pub fn skipped_environment(&mut self, why: impl Into<String>) {
        let why = why.into();
        self.count("cases_skipped_for_environment_reasons", 1);
        if self.env_skips.len() < 5 {
            self.env_skips.push(why);
        }
    }

    /// Take over the violations (and inconclusive notes) of `o`, nothing else.
    pub fn take_violations(&mut self, o: Obs) {
        self.violation_count += o.violation_count;
        for (k, n) in o.violation_sigs {
            *self.violation_sigs.entry(k).or_insert(0) += n;
        }
        for v in o.violations {
            if self.violations.len() < MAX_VIOLATIONS_KEPT && !self.violations.iter().any(|w| w.signature == v.signature) {
                self.violations.push(v);
            }
        }
        self.inconclusive.extend(o.inconclusive);
        self.env_skips.extend(o.env_skips.into_iter().take(1));
    }

    pub fn merge(&mut self, o: Obs) {
        self.evaluations += o.evaluations;
        self.trivial += o.trivial;
        self.shapes.extend(o.shapes);
        for s in o.samples {
            self.sample(s);
        }
        self.violation_count += o.violation_count;
        for (k, v) in o.violation_sigs {
            *self.violation_sigs.entry(k).or_insert(0) += v;
        }
        for v in o.violations {
            if self.violations.len() < MAX_VIOLATIONS_KEPT
                && !self.violations.iter().any(|x| x.signature == v.signature)
            {
                self.violations.push(v);
            }
        }
        for (k, v) in o.counters {
            *self.counters.entry(k).or_insert(0) += v;
        }
        for (k, v) in o.maxima {
            let e = self.maxima.entry(k).or_insert(0);
            if v > *e {
                *e = v;
            }
        }
        for (k, v) in o.sets {
            self.sets.entry(k).or_default().extend(v);
        }
        self.notes.extend(o.notes);
        self.inconclusive.extend(o.inconclusive);
        for w in o.env_skips {
            if self.env_skips.len() < 5 {
                self.env_skips.push(w);
            }
        }
    }
}

pub struct Ctx {
    pub prop: String,
    pub tier: Tier,
    pub seed: u64,
    pub start: Instant,
    pub obs: Obs,
    pub rule: String,
    pub exhaustive: Option<String>,
    pub assumptions: Vec<String>,
    pub floor_evaluations: u64,
    pub extra: Map<String, Value>,
    /// When replaying, only this signature / case is of interest.
    pub replay: Option<Value>,
    /// A shadow run: the same workload (another seed, an eighth of the parallel cases, two worker
    /// threads) executed beside the main run in the same process; only its violations are kept.
    pub shadow: bool,
}

pub fn verif_root() -> PathBuf {
    std::env::var("VERIF_ROOT")
        .map(PathBuf::from)
        .unwrap_or_else(|_| PathBuf::from("/verif"))
}

pub fn time_cap_s(tier: Tier) -> f64 {
    if let Ok(v) = std::env::var("VERIF_TIME_CAP_S") {
        if let Ok(x) = v.parse::<f64>() {
            return x;
        }
    }
    tier.pick(60.0, 1500.0)
}

struct Known {
    signature: String,
    what: String,
}

fn load_known(prop: &str) -> Vec<Known> {
    let path = verif_root().join("known_findings.json");
    let Ok(text) = std::fs::read_to_string(&path) else {
        return Vec::new();
    };
    let Ok(v) = serde_json::from_str::<Value>(&text) else {
        eprintln!("HARNESS-ERROR: known_findings.json does not parse");
        std::process::exit(2);
    };
    let mut out = Vec::new();
    if let Some(arr) = v.get("known").and_then(|k| k.as_array()) {
        for k in arr {
            if k.get("property").and_then(|p| p.as_str()) == Some(prop) {
                out.push(Known {
                    signature: k
                        .get("signature")
                        .and_then(|s| s.as_str())
                        .unwrap_or("")
                        .to_string(),
                    what: k
                        .get("what")
                        .and_then(|s| s.as_str())
                        .unwrap_or("")
                        .to_string(),
                });
            }
        }
    }
    out
}

impl Ctx {
    pub fn new(prop: &str, tier: Tier, seed: u64) -> Self {
        Ctx {
            prop: prop.to_string(),
            tier,
            seed,
            start: Instant::now(),
            obs: Obs::new(),
            rule: String::new(),
            exhaustive: None,
            assumptions: Vec::new(),
            floor_evaluations: 1,
            extra: Map::new(),
            replay: None,
            shadow: false,
        }
    }

    pub fn elapsed(&self) -> f64 {
        self.start.elapsed().as_secs_f64()
    }

    /// True once the (soft) time cap for generating *new* cases has passed.
    pub fn out_of_time(&self) -> bool {
        self.elapsed() > time_cap_s(self.tier)
    }

    pub fn set(&mut self, key: &str, v: Value) {
        self.extra.insert(key.to_string(), v);
    }

    /// Write evidence, print verdict lines, return the process exit code.
    pub fn finish(mut self) -> i32 {
        let root = verif_root();
        // Calls given up and calls in flight beside the cases' own (s3sim::block_on).
        #[cfg(feature = "data")]
        {
            use std::sync::atomic::Ordering::SeqCst;
            let n = crate::s3sim::PRELUDES.load(SeqCst);
            if n > 0 {
                self.obs.count("calls_preceded_on_their_runtime_by_a_call_that_was_given_up", n);
                self.obs.count("given_up_calls_dropped_before_they_completed", crate::s3sim::PRELUDES_CANCELLED.load(SeqCst));
            }
            let c = crate::s3sim::COMPANIONS.load(SeqCst);
            if c > 0 {
                self.obs.count("calls_with_a_companion_call_in_flight_on_the_same_runtime", c);
                self.obs.count("companion_calls_answered_exactly", crate::s3sim::COMPANIONS_EXACT.load(SeqCst));
            }
            let side: Vec<(String, String)> = crate::s3sim::SIDE_VIOLATIONS.lock().map(|mut v| std::mem::take(&mut *v)).unwrap_or_default();
            for (sig, detail) in side {
                self.obs.violation(sig, detail, serde_json::json!({"companion": true}));
            }
        }
        // Guard allocator (mon.rs): blocks whose red zones were overwritten, wherever they were released.
        {
            use std::sync::atomic::Ordering::SeqCst;
            let n = crate::mon::GUARD_OVERRUNS.load(SeqCst);
            if crate::mon::guard_on() {
                self.obs.count("heap_blocks_between_red_zones_with_junk_filled_fresh_and_freed_memory", crate::mon::GUARD_BLOCKS.load(SeqCst));
            } else {
                self.obs.count("run_without_the_guard_allocator", 1);
            }
            if n > 0 && !self.obs.violation_sigs.keys().any(|k| k.starts_with("memory safety:")) {
                let first = crate::mon::GUARD_FIRST.load(SeqCst);
                self.obs.violation(
                    "memory safety: bytes outside a heap block were overwritten during the run (guard allocator red zone)",
                    format!("{} block(s); first: a {}-byte block overwritten {}", n, first >> 8, match first & 3 { 1 => "in front", 2 => "behind", _ => "on both sides" }),
                    serde_json::json!({"blocks": n, "first_block_size": first >> 8}),
                );
            }
        }
        let known = load_known(&self.prop);
        let wall = self.elapsed();

        // Partition violations into known findings and new ones, by exact signature.
        let mut known_hits: BTreeMap<String, (u64, String)> = BTreeMap::new();
        let mut fresh: Vec<&Violation> = Vec::new();
        let mut fresh_count: u64 = 0;
        for (sig, n) in &self.obs.violation_sigs {
            if let Some(k) = known.iter().find(|k| &k.signature == sig) {
                known_hits.insert(sig.clone(), (*n, k.what.clone()));
            } else {
                fresh_count += n;
            }
        }
        for v in &self.obs.violations {
            if !known_hits.contains_key(&v.signature) {
                fresh.push(v);
            }
        }

        // Observation lines.
        println!(
            "observed: property={} tier={} seed={} evaluations={} distinct_nontrivial={} trivial={} wall_s={:.1}",
            self.prop,
            self.tier.name(),
            self.seed,
            self.obs.evaluations,
            self.obs.shapes.len(),
            self.obs.trivial,
            wall
        );
        for (k, v) in &self.obs.counters {
            println!("observed: {}={}", k, v);
        }
        for (k, v) in &self.obs.maxima {
            println!("observed: max {}={}", k, v);
        }
        for (k, v) in &self.obs.sets {
            println!("observed: distinct {}={}", k, v.len());
        }
        for n in &self.obs.notes {
            println!("note: {}", n);
        }

        // Replay mode: report whether the recorded signature recurs, never touch evidence.
        if let Some(rp) = &self.replay {
            let want = rp.get("signature").and_then(|s| s.as_str()).unwrap_or("").to_string();
            println!("replay: looking for signature {:?}", want);
            if let Some(v) = self.obs.violations.iter().find(|v| v.signature == want) {
                println!("replay: REPRODUCED ({} occurrences)", self.obs.violation_sigs.get(&want).copied().unwrap_or(1));
                println!("replay: detail (expected vs observed): {}", v.detail);
                println!("VIOLATION property={} replay={}", self.prop, rp.get("_path").and_then(|p| p.as_str()).unwrap_or("<replay file>"));
                return 1;
            }
            if self.obs.violation_sigs.contains_key(&want) {
                println!("replay: REPRODUCED (signature recurs; witness not kept)");
                return 1;
            }
            println!("replay: not reproduced on the current tree ({} other violation signatures seen)", self.obs.violation_sigs.len());
            for s in self.obs.violation_sigs.keys().take(5) {
                println!("replay: other signature: {}", s);
            }
            return 0;
        }

        // Replay files for fresh violations.
        let replay_dir = std::env::var("VERIF_REPLAY_DIR").map(PathBuf::from).unwrap_or_else(|_| root.join("replays"));
        let _ = std::fs::create_dir_all(&replay_dir);
        let mut violation_lines = Vec::new();
        for (i, v) in fresh.iter().enumerate() {
            let path = replay_dir.join(format!(
                "{}-{}-s{}-{}.json",
                self.prop,
                self.tier.name(),
                self.seed,
                i
            ));
            let body = json!({
                "property": self.prop,
                "tier": self.tier.name(),
                "seed": self.seed,
                "signature": v.signature,
                "detail": v.detail,
                "occurrences": self.obs.violation_sigs.get(&v.signature).copied().unwrap_or(1),
                "case": v.replay,
            });
            let _ = std::fs::write(&path, serde_json::to_string_pretty(&body).unwrap_or_default());
            violation_lines.push((path, v));
        }

        // Evidence.
        let mut coverage = Map::new();
        coverage.insert("evaluations".into(), json!(self.obs.evaluations));
        coverage.insert("distinct_nontrivial".into(), json!(self.obs.shapes.len()));
        coverage.insert("trivial_cases".into(), json!(self.obs.trivial));
        coverage.insert("rule".into(), json!(self.rule));
        coverage.insert("samples".into(), Value::Array(self.obs.samples.clone()));
        if let Some(e) = &self.exhaustive {
            coverage.insert("exhaustive".into(), json!(true));
            coverage.insert("exhaustive_subdomain".into(), json!(e));
        }
        let mut observed = Map::new();
        for (k, v) in &self.obs.counters {
            observed.insert(k.clone(), json!(v));
        }
        for (k, v) in &self.obs.maxima {
            observed.insert(format!("max_{}", k), json!(v));
        }
        for (k, v) in &self.obs.sets {
            observed.insert(format!("distinct_{}", k), json!(v.len()));
        }
        coverage.insert("observed".into(), Value::Object(observed));
        for (k, v) in std::mem::take(&mut self.extra) {
            coverage.insert(k, v);
        }
        coverage.insert(
            "known_findings_matched".into(),
            json!(known_hits
                .iter()
                .map(|(s, (n, _))| json!({"signature": s, "occurrences": n}))
                .collect::<Vec<_>>()),
        );
        coverage.insert("inconclusive".into(), json!(self.obs.inconclusive));
        // the process environment the library ran in (the driver varies the time zone with the
        // seed: nothing in the properties may depend on it)
        coverage.insert(
            "environment".into(),
            json!({"TZ": std::env::var("TZ").unwrap_or_else(|_| "(unset)".into()),
                   "local_utc_offset_s": chrono::Local::now().offset().local_minus_utc()}),
        );
        coverage.insert(
            "violation_signatures".into(),
            json!(fresh.iter().map(|v| v.signature.clone()).collect::<Vec<_>>()),
        );
        let evidence = json!({
            "property_id": self.prop,
            "tier": self.tier.name(),
            "seed": self.seed,
            "level": "exploration",
            "coverage": Value::Object(coverage),
            "assumptions": self.assumptions,
            "wall_s": (wall * 1000.0).round() / 1000.0,
            "violations": fresh_count,
        });
        let ev_dir = std::env::var("VERIF_EVIDENCE_DIR").map(PathBuf::from).unwrap_or_else(|_| root.join("evidence"));
        let _ = std::fs::create_dir_all(&ev_dir);
        if self.replay.is_none() {
            let ev_path = ev_dir.join(format!("{}.json", self.prop));
            if let Err(e) = std::fs::write(
                &ev_path,
                serde_json::to_string_pretty(&evidence).unwrap_or_default() + "\n",
            ) {
                eprintln!("HARNESS-ERROR: cannot write {}: {}", ev_path.display(), e);
                return 2;
            }
        }

        for (sig, (n, what)) in &known_hits {
            println!(
                "KNOWN-FINDING: property={} signature={:?} occurrences={} {}",
                self.prop, sig, n, what
            );
        }

        if !violation_lines.is_empty() {
            for (path, v) in &violation_lines {
                println!("violation-detail: [{}] {}", v.signature, v.detail);
                println!("VIOLATION property={} replay={}", self.prop, path.display());
            }
            return 1;
        }
        if fresh_count > 0 {
            // violations beyond the kept cap (cannot happen without kept ones, defensive)
            println!("VIOLATION property={} replay=<none>", self.prop);
            return 1;
        }

        let env_skipped = self.obs.counters.get("cases_skipped_for_environment_reasons").copied().unwrap_or(0);
        if env_skipped > 5 && env_skipped * 50 > self.obs.evaluations {
            self.obs.inconclusive.push(format!("{} of {} cases could not be run for environment reasons, e.g. {:?}", env_skipped, self.obs.evaluations, self.obs.env_skips.first()));
        } else if env_skipped > 0 {
            println!("observed: {} case(s) skipped for environment reasons (not a verdict), e.g. {:?}", env_skipped, self.obs.env_skips.first());
        }
        if !self.obs.inconclusive.is_empty() {
            for w in &self.obs.inconclusive {
                println!("INCONCLUSIVE: property={} {}", self.prop, w);
            }
            return 2;
        }
        // a lane that divides the workload (VERIF_CASES_DIV) divides the observation floor with it
        let div = std::env::var("VERIF_CASES_DIV").ok().and_then(|v| v.parse::<u64>().ok()).filter(|d| *d > 1).unwrap_or(1);
        let floor = self.floor_evaluations / div;
        if self.obs.evaluations < floor || self.obs.shapes.len() < 2 {
            println!(
                "INCONCLUSIVE: property={} observed too little (evaluations={} floor={} distinct={})",
                self.prop,
                self.obs.evaluations,
                floor,
                self.obs.shapes.len()
            );
            return 2;
        }
        println!(
            "HELD: property={} on {} evaluations ({} distinct non-trivial)",
            self.prop,
            self.obs.evaluations,
            self.obs.shapes.len()
        );
        0
    }
}

pub fn threads(tier: Tier) -> usize {
    if let Ok(v) = std::env::var("VERIF_THREADS") {
        if let Ok(n) = v.parse::<usize>() {
            return n.max(1);
        }
    }
    let n = std::thread::available_parallelism().map(|n| n.get()).unwrap_or(4);
    tier.pick(n.min(8), n)
}

/// Run `total` cases over worker threads; `f(case_index, &mut Obs)`. Cases are handed out by an
/// atomic counter so the set of cases run is independent of scheduling; stops handing out new
/// cases once `deadline_s` has elapsed (reported through the evaluations count).
pub fn par_cases<F>(ctx: &mut Ctx, total: u64, f: F)
where
    F: Fn(u64, &mut Obs) + Sync,
{
    par_cases_opt(ctx, total, true, f)
}

/// `par_cases` without the failing calls ahead of cases and without second runs: for phases that
/// want the process as it is (a sweep that must be the first thing the library sees).
pub fn par_cases_pristine<F>(ctx: &mut Ctx, total: u64, f: F)
where
    F: Fn(u64, &mut Obs) + Sync,
{
    par_cases_opt(ctx, total, false, f)
}

fn par_cases_opt<F>(ctx: &mut Ctx, total: u64, company: bool, f: F)
where
    F: Fn(u64, &mut Obs) + Sync,
{
    use std::sync::atomic::{AtomicU64, Ordering};
    let n = if ctx.shadow { 2 } else { threads(ctx.tier) };
    // lanes that slow execution down by one to four orders of magnitude shrink the workload
    let total = match std::env::var("VERIF_CASES_DIV").ok().and_then(|v| v.parse::<u64>().ok()) {
        Some(d) if d > 1 => (total / d).max(1),
        _ => total,
    };
    let total = if ctx.shadow { (total / 8).max(1) } else { total };
    let next = AtomicU64::new(0);
    // C04 and C06 measure per-thread allocation peaks and CPU time around their own calls
    let no_poison = !company || matches!(ctx.prop.as_str(), "C04" | "C06") || std::env::var("VERIF_NO_POISON").is_ok();
    let no_echo = !company || std::env::var("VERIF_NO_ECHO").is_ok();
    let cap = time_cap_s(ctx.tier);
    let start = ctx.start;
    // a pristine phase starts all its workers at the same instant
    let gate = std::sync::Barrier::new(if company { 1 } else { n });
    let results: Vec<Obs> = std::thread::scope(|s| {
        let handles: Vec<_> = (0..n)
            .map(|_| {
                s.spawn(|| {
                    let mut obs = Obs::new();
                    let mut previous: Option<u64> = None;
                    gate.wait();
                    loop {
                        let i = next.fetch_add(1, Ordering::Relaxed);
                        if i >= total {
                            break;
                        }
                        if start.elapsed().as_secs_f64() > cap {
                            obs.count("cases_skipped_by_time_cap", 1);
                            continue;
                        }
                        // a third of the cases are preceded, on this thread, by failing and
                        // hostile calls whose leftovers must not reach the case (props/poison.rs)
                        if i % 3 == 1 && !no_poison {
                            crate::props::poison::run(i);
                            obs.count("cases_preceded_by_failing_calls_on_the_same_thread", 1);
                        }
                        let overruns_before = crate::mon::guard_overruns_on_this_thread();
                        // A panic that leaves the case function did not come from a call under a
                        // dedicated monitor.  Raised inside the harness's own sources it is a harness
                        // fault (inconclusive); raised anywhere else - the repository, a crate it
                        // uses, the standard library underneath one of its calls - it is a library
                        // call that panicked on a case the harness considers well-formed.
                        if let Err(p) = crate::mon::catch_escaped(|| f(i, &mut obs)) {
                            if p.file.contains("harness/src/") || p.file.contains("lanes/miri/") {
                                obs.inconclusive(format!("a harness worker thread panicked outside a monitored call ({}:{} {})", p.file, p.line, p.message));
                            } else {
                                obs.violation(
                                    format!("a library call made while the case was judged panicked: {}", p.signature()),
                                    format!("case {}: {} at {}:{}", i, p.message, p.file, p.line),
                                    serde_json::json!({"case_index": i, "panic": p.message, "at": format!("{}:{}", p.file, p.line)}),
                                );
                            }
                        }
                        let overruns = crate::mon::guard_overruns_on_this_thread() - overruns_before;
                        if overruns > 0 {
                            obs.violation(
                                "memory safety: bytes outside a heap block were overwritten while the case ran (guard allocator red zone)",
                                format!("{} block(s) released during case {} had their red zones overwritten", overruns, i),
                                serde_json::json!({"case_index": i, "blocks": overruns}),
                            );
                        }
                        // History: one case in eight is followed, on the same thread, by a second
                        // run of the case this thread ran before it (A, B, A).  Every case is judged
                        // against its own reference model, so the second run of A must pass exactly
                        // as the first did: anything the library kept from A's first run or from B
                        // (a cache, a reused buffer, a static) that leaks into it shows as an
                        // ordinary violation.  Only violations are taken from the second run.
                        if !no_echo && i % 8 == 5 {
                            if let Some(p) = previous {
                                let mut again = Obs::new();
                                if let Err(pn) = crate::mon::catch_escaped(|| f(p, &mut again)) {
                                    if pn.file.contains("harness/src/") {
                                        again.inconclusive(format!("a harness worker thread panicked outside a monitored call ({}:{} {})", pn.file, pn.line, pn.message));
                                    } else {
                                        again.violation(
                                            format!("a library call made while the case was judged panicked: {}", pn.signature()),
                                            format!("case {} (run a second time): {} at {}:{}", p, pn.message, pn.file, pn.line),
                                            serde_json::json!({"case_index": p, "panic": pn.message, "at": format!("{}:{}", pn.file, pn.line)}),
                                        );
                                    }
                                }
                                obs.count("cases_run_a_second_time_after_another_case_on_the_same_thread", 1);
                                if again.violation_count > 0 && obs.violation_count == 0 {
                                    obs.count("violations_seen_only_on_a_second_run", again.violation_count);
                                }
                                obs.take_violations(again);
                            }
                        }
                        previous = Some(i);
                    }
                    obs
                })
            })
            .collect();
        handles
            .into_iter()
            .map(|h| match h.join() {
                Ok(o) => o,
                Err(_) => {
                    let mut o = Obs::new();
                    o.inconclusive("a harness worker thread panicked outside a monitored call");
                    o
                }
            })
            .collect()
    });
    for o in results {
        ctx.obs.merge(o);
    }
}

pub fn hex(bytes: &[u8]) -> String {
    let mut s = String::with_capacity(bytes.len() * 2);
    for b in bytes {
        s.push_str(&format!("{:02x}", b));
    }
    s
}

pub fn hex_abbrev(bytes: &[u8], max: usize) -> String {
    if bytes.len() <= max {
        hex(bytes)
    } else {
        format!("{}..(+{} bytes)", hex(&bytes[..max]), bytes.len() - max)
    }
}

pub fn unhex(s: &str) -> Vec<u8> {
    let b = s.as_bytes();
    let mut out = Vec::with_capacity(b.len() / 2);
    let mut i = 0;
    while i + 1 < b.len() {
        let h = (b[i] as char).to_digit(16).unwrap_or(0) as u8;
        let l = (b[i + 1] as char).to_digit(16).unwrap_or(0) as u8;
        out.push(h << 4 | l);
        i += 2;
    }
    out
}

/// Report a non-terminating call found by the CPU-time watchdog: writes a replay file and a
/// minimal evidence file, prints the VIOLATION line and ends the process (the stuck thread cannot
/// be stopped).  Honours known findings by signature like every other violation.
pub fn report_stuck_and_exit(prop: &str, tier: Tier, seed: u64, op: &str, family: &str, input: &[u8], cpu_s: u64, budget_s: u64) -> ! {
    let root = verif_root();
    let (op, mem_bytes) = match op.split_once("|MEM|") {
        Some((o, b)) => (o, b.parse::<u64>().ok()),
        None => (op, None),
    };
    let (op, blocked_s) = match op.split_once("|BLOCKED|") {
        Some((o, b)) => (o, b.parse::<u64>().ok()),
        None => (op, None),
    };
    let signature = match (mem_bytes, blocked_s) {
        (Some(_), _) => format!("{} holds more than {} GiB above its baseline (memory not bounded by the input)", op, crate::mon::HARD_CAP_BYTES >> 30),
        (None, Some(b)) => format!("{} does not terminate (blocked: no CPU time consumed for {} s inside a call that performs no I/O)", op, b),
        (None, None) => format!("{} does not terminate (CPU-time budget of {} s per call exhausted)", op, budget_s),
    };
    let known = load_known(prop);
    if let Some(k) = known.iter().find(|k| k.signature == signature) {
        println!("KNOWN-FINDING: property={} signature={:?} {}", prop, signature, k.what);
        println!("INCONCLUSIVE: property={} a listed non-terminating call blocks the rest of the run", prop);
        std::process::exit(2);
    }
    let replay_dir = std::env::var("VERIF_REPLAY_DIR").map(PathBuf::from).unwrap_or_else(|_| root.join("replays"));
    let _ = std::fs::create_dir_all(&replay_dir);
    let path = replay_dir.join(format!("{}-{}-s{}-stuck.json", prop, tier.name(), seed));
    let body = json!({"property": prop, "tier": tier.name(), "seed": seed, "signature": signature,
        "detail": match mem_bytes {
            Some(b) => format!("{} requested {} bytes above its baseline while decoding a {}-byte {} input; the thread was parked before the operating system had to intervene", op, b, input.len(), family),
            None if blocked_s.is_some() => format!("{} has been inside one call for {} s of wall time while its thread consumed less than 1 s of CPU time ({}-byte {} input): it is blocked, not slow", op, blocked_s.unwrap_or(0), input.len(), family),
            None => format!("{} consumed {} s of CPU time on a {}-byte {} input without returning", op, cpu_s, input.len(), family),
        },
        "case": {"op": op, "family": family, "input_len": input.len(), "input_hex": hex(input)}});
    let _ = std::fs::write(&path, serde_json::to_string_pretty(&body).unwrap_or_default());
    let ev_dir = std::env::var("VERIF_EVIDENCE_DIR").map(PathBuf::from).unwrap_or_else(|_| root.join("evidence"));
    let _ = std::fs::create_dir_all(&ev_dir);
    let evidence = json!({"property_id": prop, "tier": tier.name(), "seed": seed, "level": "exploration",
        "coverage": {"evaluations": 1, "distinct_nontrivial": 2, "rule": "run aborted by the CPU-time termination monitor; counts are not meaningful for this run",
            "samples": [{"stuck_op": op, "family": family, "input": hex_abbrev(input, 64)}], "violation_signatures": [signature]},
        "wall_s": 0.0, "violations": 1});
    let _ = std::fs::write(ev_dir.join(format!("{}.json", prop)), serde_json::to_string_pretty(&evidence).unwrap_or_default());
    match mem_bytes {
        Some(b) => println!("violation-detail: [{}] {} bytes requested on a {}-byte {} input", signature, b, input.len(), family),
        None if blocked_s.is_some() => println!("violation-detail: [{}] {}-byte {} input", signature, input.len(), family),
        None if family.is_empty() => println!("violation-detail: [{}] {} s of CPU in one call of the seed-{} workload (the replay file re-runs it)", signature, cpu_s, seed),
        None => println!("violation-detail: [{}] {} s of CPU on a {}-byte {} input", signature, cpu_s, input.len(), family),
    }
    println!("VIOLATION property={} replay={}", prop, path.display());
    std::process::exit(1);
}
