//! Seeded PRNG (SplitMix64 seeding + xoshiro256**), own code so that runs are reproducible
//! from VERIF_SEED alone and independent of any crate version.

static POOL_SEED: std::sync::atomic::AtomicU64 = std::sync::atomic::AtomicU64::new(0x5EED);

/// The pools of `Rng::pooled` depend on the run's seed only.
pub fn set_pool_seed(seed: u64) {
    POOL_SEED.store(seed ^ 0x0123_4567_89AB_CDEF, std::sync::atomic::Ordering::Relaxed);
}

#[derive(Clone)]
pub struct Rng {
    s: [u64; 4],
}

fn splitmix(x: &mut u64) -> u64 {
    *x = x.wrapping_add(0x9E37_79B9_7F4A_7C15);
    let mut z = *x;
    z = (z ^ (z >> 30)).wrapping_mul(0xBF58_476D_1CE4_E5B9);
    z = (z ^ (z >> 27)).wrapping_mul(0x94D0_49BB_1331_11EB);
    z ^ (z >> 31)
}

impl Rng {
    pub fn new(seed: u64) -> Self {
        let mut x = seed;
        Rng {
            s: [
                splitmix(&mut x),
                splitmix(&mut x),
                splitmix(&mut x),
                splitmix(&mut x),
            ],
        }
    }

    /// Derive an independent stream for (seed, property stream, index).
    pub fn derive(seed: u64, stream: u64, index: u64) -> Self {
        let mut x = seed ^ stream.wrapping_mul(0xA24B_AED4_963E_E407);
        let a = splitmix(&mut x);
        let mut y = a ^ index.wrapping_mul(0x9FB2_1C65_1E98_DF25);
        let b = splitmix(&mut y);
        Rng::new(a ^ b.rotate_left(17))
    }

    pub fn next_u64(&mut self) -> u64 {
        let result = self.s[1].wrapping_mul(5).rotate_left(7).wrapping_mul(9);
        let t = self.s[1] << 17;
        self.s[2] ^= self.s[0];
        self.s[3] ^= self.s[1];
        self.s[1] ^= self.s[2];
        self.s[0] ^= self.s[3];
        self.s[2] ^= t;
        self.s[3] = self.s[3].rotate_left(45);
        result
    }

    pub fn u32(&mut self) -> u32 {
        (self.next_u64() >> 32) as u32
    }
    pub fn u16(&mut self) -> u16 {
        (self.next_u64() >> 48) as u16
    }
    pub fn u8(&mut self) -> u8 {
        (self.next_u64() >> 56) as u8
    }

    /// Uniform in 0..n (n > 0).
    pub fn below(&mut self, n: u64) -> u64 {
        debug_assert!(n > 0);
        // multiply-shift; bias is negligible for our n
        ((self.next_u64() as u128 * n as u128) >> 64) as u64
    }

    pub fn usize_below(&mut self, n: usize) -> usize {
        self.below(n as u64) as usize
    }

    /// Uniform in lo..=hi.
    pub fn range(&mut self, lo: u64, hi: u64) -> u64 {
        lo + self.below(hi - lo + 1)
    }

    pub fn urange(&mut self, lo: usize, hi: usize) -> usize {
        self.range(lo as u64, hi as u64) as usize
    }

    /// An *identity-like* value (a pattern number, a sequence number, a site, a date ...): one time in
    /// six it comes from a pool of three values per `slot` that is fixed for the whole run, so that
    /// across a run many otherwise unrelated inputs share the value.  Anything in the library that
    /// remembers something under such a key (a cache, a memo table, a "last seen" slot) then meets
    /// the same key again with different contents.  Otherwise `fresh` is returned.
    pub fn pooled(&mut self, slot: u64, fresh: u64) -> u64 {
        if self.chance(1, 6) {
            let k = self.below(3);
            let mut x = POOL_SEED.load(std::sync::atomic::Ordering::Relaxed) ^ slot.wrapping_mul(0xD6E8_FEB8_6659_FD93) ^ k.wrapping_mul(0xA24B_AED4_963E_E407);
            splitmix(&mut x)
        } else {
            fresh
        }
    }

    /// True with probability num/den.
    pub fn chance(&mut self, num: u64, den: u64) -> bool {
        self.below(den) < num
    }

    pub fn pick<'a, T>(&mut self, xs: &'a [T]) -> &'a T {
        &xs[self.usize_below(xs.len())]
    }

    pub fn bytes(&mut self, n: usize) -> Vec<u8> {
        let mut v = Vec::with_capacity(n);
        while v.len() + 8 <= n {
            v.extend_from_slice(&self.next_u64().to_le_bytes());
        }
        while v.len() < n {
            v.push(self.u8());
        }
        v
    }

    pub fn shuffle<T>(&mut self, xs: &mut [T]) {
        for i in (1..xs.len()).rev() {
            let j = self.usize_below(i + 1);
            xs.swap(i, j);
        }
    }

    /// A finite f32 drawn from a mix of "nice" and raw-bit-pattern values (never NaN/inf).
    pub fn f32_finite(&mut self) -> f32 {
        loop {
            let v = match self.below(4) {
                0 => (self.below(2_000_001) as f32 - 1_000_000.0) / 1000.0,
                1 => (self.below(720) as f32) * 0.5,
                _ => f32::from_bits(self.u32()),
            };
            if v.is_finite() {
                return v;
            }
        }
    }
}

/// FNV-1a 64 for shape signatures.
pub fn fnv(bytes: &[u8]) -> u64 {
    let mut h: u64 = 0xcbf2_9ce4_8422_2325;
    for b in bytes {
        h ^= *b as u64;
        h = h.wrapping_mul(0x0000_0100_0000_01B3);
    }
    h
}

pub fn fnv_str(s: &str) -> u64 {
    fnv(s.as_bytes())
}

pub fn mix(a: u64, b: u64) -> u64 {
    let mut x = a ^ b.wrapping_mul(0x9E37_79B9_7F4A_7C15);
    splitmix(&mut x)
}
