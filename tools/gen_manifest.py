#!/usr/bin/env python3
"""Regenerates /verif/MANIFEST.json from the table below and validates it against the schema."""
import json, os, sys

ROOT = os.path.dirname(os.path.dirname(os.path.abspath(__file__)))

# property id -> (technique, level text, level note, design ref)
BUILT = ["C01","C02","C03","C04","C05","C06","C07","C08","C09","C10","C11","C12","C13","C14","C15","C16","C17","C18","C19","C20"]

X = "exploration"
CHECKS_ALL = {
 "C01": ("reference-model monitor: generated Archive II volumes (unique radial identities, plus byte-identical retransmitted radials) through the real File::scan, compared with the generator's own radial list; panic monitor; ASan+libbz2 lane in thorough",
         "Seeded volumes (1..255 elevation runs incl. single elevation, single radial, SAILS 1,2,1,3, runs of one; any block subset and gate counts; metadata frames of all type codes interleaved; 1..200 bzip2 LDM records cut at message boundaries, +/- prefixes; azimuth numbering running through north or arbitrary; messages repeated byte for byte) are converted by the real File::scan and compared element-wise with the radial list the generator built through the model's public constructors: nothing lost, duplicated, reordered or altered, sweeps are the maximal elevation runs, VCP is the first VOL block's. Holds on the K volumes observed, not beyond.",
         "Trusts the hand-written ICD encoders (Appendix A) and libbz2's compressor used to build inputs; messages never straddle records; RPG header bytes zero.",
         "DESIGN.md §2 C01"),
 "C02": ("reference-model monitor: independent hand-written type-31 encoder with distinct value per field vs the real decoder, all 2^10 block subsets; Miri lane in thorough",
         "Every case writes a type-31 message at explicit ICD offsets with a distinct value in every scalar field (so a transposition, endianness slip or wrong name->slot routing is visible), in all 2^10 block subsets, shuffled pointer order, permuted physical order with random-filled gaps, gate counts 0..65535 and word sizes 8/16, and requires every public field of the decoded message to equal what was written, presence iff encoded, gate bytes intact.",
         "Trusts the offsets of DESIGN.md Appendix A. Duplicate block names / zero pointers inside the declared count are not generated.",
         "DESIGN.md §2 C02"),
 "C03": ("reference-model monitor over generated message streams and every truncation point; small-scope exhaustive sequences; solo-vs-stream decode comparison",
         "Streams over all 256 type codes and contiguous type-31 messages (length 0..300) are decoded whole and compared entry by entry with each message decoded alone and with the generator's headers; all 2,801 sequences of length <=4 over a 7-symbol alphabet are enumerated; every byte cut of short streams and +/-40-byte neighbourhoods of every boundary of longer ones are classified: a fragment shorter than a header is ignored, a cut inside a body must be an error.",
         "Type-31 messages are contiguous with the last-pointed block physically last (the statement's precondition).",
         "DESIGN.md §2 C03"),
 "C04": ("process-level monitors on hostile inputs: panic hook + catch_unwind, counting reader with a logical work budget (termination as bounded progress), per-thread counting allocator (peak <= const + linear); Miri lane in thorough",
         "Prefixes of valid streams, 1-8 bit/byte/field mutations biased to headers and pointers, field-directed extremes (block count 65535, pointers backwards/overlapping/self-referential/out of range, unknown and non-UTF-8 block names, gates 65535, word size 0..255, cut count 52..65535, zone count 65535) and random bytes are run through every decoding entry point (all 256+ type codes for contents) and radial()/into_radial() of whatever decoded, under the panic, reader-work and allocator monitors.",
         "Termination is decided on logical reader work (<= 64x an independent plain walk of the same bytes + 1 MiB) and, for code that spins without reading, on a per-call CPU-time budget of 30 s for every decoding and conversion call (thread CPU clock, never wall time); memory bound 24 MiB (40 MiB for conversion) + 64 n; inputs whose plain walk exceeds 50 MiB are skipped and counted; a process death by signal is reported as a violation by the driver.",
         "DESIGN.md §2 C04"),
 "C05": ("reference-model monitor: generated containers (known payloads) through the real File/Record/Chunk API; ASan-instrumented libbz2 and valgrind memcheck lanes",
         "Containers with arbitrary header bytes, 0..40 records, payloads 0 B..300 KiB of five kinds (random, constant, bzip2-looking, doubly compressed, repeating), plain bodies, bodies that merely start with the two magic bytes 'BZ', +/- prefixes are checked for exact tiling, compressed() <=> BZ magic, byte-exact bzip2 round trip, the two error cases, header accessors, and chunk classification.",
         "Trusts libbz2's compressor for building inputs (the decompressor is the code under test, also run under ASan/valgrind).",
         "DESIGN.md §2 C05"),
 "C06": ("panic monitor and CPU-time termination monitor over exhaustive boundary lengths, every truncation point of valid files, corrupted prefixes and bit-flipped bzip2; ASan+libbz2 / valgrind lanes on the corrupted-bzip2 part",
         "Every length 0..=64 x 12 content families, every truncation point of generated volumes/containers/chunks, a corrupted size prefix at any record, 1-16 bit flips inside bzip2 bodies and random bytes are wrapped as File, Record (owned/borrowed) and Chunk and driven through every public call of the statement including {:?}; any panic is a violation.",
         "Termination has no logical-step hook here (libbz2 is native code): it is restated as a per-call CPU-time budget of 20 s measured on the calling thread's CPU clock (the unchanged code needs <= ~25 ms per call on these inputs; the maximum observed is written to the evidence). Wall time is never a verdict.",
         "DESIGN.md §2 C06"),
 "C08": ("reference-model monitor (independent integer calendar) over an exhaustive enumeration of day counts, run through the real decoders; panic monitor for the out-of-range clause",
         "All 65,535 in-range day counts are driven through each of the seven public date-time accessors (via their real decoders) and compared with an independent integer calendar: instant, civil fields, strict monotonicity, decode-crate vs data-crate agreement. Exhaustive in d; t is sampled at the edges plus seeded values (all 1440 minutes on four days). Out-of-range fields are run under the panic monitor.",
         "Trusts the harness calendar (self-checked day by day over 66,000 days at start-up) and that the public decoders place the date/time fields where Appendix A says (checked separately by C02/C10/C12/C13).",
         "DESIGN.md §2 C08"),
 "C09": ("reference-model monitor: exhaustive small-scope enumeration plus seeded sequences under four identity patterns (all radials unique; equal radials adjacent, recurring, or all equal per elevation) against a 10-line run-splitter and a stable sort",
         "All 9,841 elevation strings of length <=8 over three symbols and all 1,600 azimuth-list pairs of length <=3 are enumerated, then random sequences to 2,000 radials over elevation numbers 0..=255 and merge pairs with duplicated/unsorted/equal azimuths; with unique identities loss, duplication, reordering and tie order are individually visible; with equal radials in the input, conservation shows in the counts and the element-wise comparison.",
         "None beyond the model crate's public constructors.",
         "DESIGN.md §2 C09"),
 "C10": ("reference-model monitor: exhaustive enumeration of type codes, size values and corner count/number pairs through the real header decoder; panic monitor with overflow checks on",
         "All 256 type codes (against a hand-written ICD table, distinctness and verbatim preservation), the six channel codes, all 65,536 size values x 64 corner (count, number) pairs plus sampled pairs, and random distinct-valued headers for the layout; every accessor must return, plain and unit-typed sizes must agree and equal the statement's rules.",
         "ICD Table III transcribed by hand; the harness is built with overflow checks and debug assertions on.",
         "DESIGN.md §2 C10"),
 "C07": ("reference-model monitor: exhaustive raw-value sweep (2^8 and 2^16 raws x 200 scale/offset pairs) and seeded messages through the real decoder and both radial conversions; bit-exact f32 comparison; Miri lane in thorough",
         "Every raw value of both word sizes under 200 (scale, offset) pairs (0, -0, negative, subnormal, huge) is converted at the decode level and the model level and compared bit-for-bit with (raw-offset)/scale computed in f32, sentinels 0/1, raw when scale is 0; all 256 spacing codes and status codes 0..=5; random messages over all block subsets check radial()==into_radial(), header mapping and absent moments.",
         "Raw 0/1 with scale 0 may be sentinel or raw (left open by the statement) but both levels must agree; status codes >= 6 only must not panic.",
         "DESIGN.md §2 C07"),
 "C11": ("reference-model monitor: hand-written VCP encoder for every cut count 0..=51, exhaustive 2^16 / 2^8 raw sweeps of every scaled and bit-field accessor, truncation and overlong-count error cases, summary mirror",
         "All cut counts are encoded with distinct field values and compared field by field (raw and framed as type 5); every scaled accessor is checked on all 65,536 raws with exact f64 equality (uom variants within 1e-9), every flag/sub-field accessor against its documented bit slice for every raw (which is 'reads exactly those bits and no others'); declared counts 52..65535 and short bodies must be errors.",
         "Offsets and bit positions transcribed from ICD 2620002W Table XI (Appendix A).",
         "DESIGN.md §2 C11"),
 "C12": ("reference-model monitor: 60 distinct halfwords for the layout; documented-code tables for 14 coded accessors; exhaustive 2^16 sweeps of 3 flag words, scaled values, VCP number and the alarm lookup",
         "Field i must be halfword i; each coded accessor must give the documented meaning (by variant name) on each documented code with distinct codes distinct; each flag accessor must equal its documented bit on all 65,536 words (either reading accepted where the doc line is self-inconsistent, one reading per word); raw/100, the build-number rule, VCP sign/magnitude and the alarm table (0..=800 defined carrying their code, none above) are checked on every 16-bit value; alarm_messages() on random code arrays.",
         "Documented meaning = the rustdoc on the wire fields (DESIGN.md Appendix B); undocumented codes are not judged.",
         "DESIGN.md §2 C12"),
 "C13": ("reference-model monitor: hand-written clutter-map encoder (0..=255 segments x 360 azimuths x 0..=25(+65535) zones) vs the real decoder; truncation at structural boundaries",
         "The decoded tree must equal the generator's tree (segment numbers consecutive, azimuth numbers 0..=359, zones in order, op codes 0/1/2 meanings, calendar instant) and any strict prefix must be an error (boundaries +/-3 bytes and random points).",
         "Segment-number base is not prescribed (consecutive only).",
         "DESIGN.md §2 C13"),
 "C14": ("reference-model monitor: message lists produced as bytes, decoded by the real decoder, summarized, compared with a 60-line reference model computed from the generator's spec; exhaustive kind strings of length <= 6",
         "All 55,987 kind strings of length <= 6 over {R(e=1), R(e=2), S, V, O(3), O(18)} and random lists to 500 messages: groups tile 0..n, count == span, maximal runs with status/VCP singletons, continued iff an earlier radial group shares the elevation, per-group data-type counts, first/last azimuth and time, min/max time over radial+status messages, VCP set, status/VCP info mirrors.",
         "Message dates >= 2; status coded fields inside their documented domains; VOL VCP numbers in the six the crate names.",
         "DESIGN.md §2 C14"),
 "C15": ("exhaustive enumeration of bucket shapes through the real rotated search (hooked, in memory, counting probe closure) + get_latest_volume against the loopback S3 simulator with a request log",
         "(a) every shape (newest index, populated count) for sizes 1..=64 and all 998,002 shapes at the production size 999 are run through the real search routine with distinct upload times, plus non-uniform time gaps to show only order type matters: result must be the newest populated directory, probes <= n + 3*ceil(log2(n+1)) + 4, indices < n. (b) get_latest_volume runs over HTTP against simulated 999-directory buckets (36 corner shapes + seeded, a sixth of them stamped ahead of the wall clock as with a client clock running behind S3): returned volume, reported calls == LIST requests logged, call bound; request parameters are recorded, not judged. (b') one site asked 3..6 times while its bucket moves on (through 999 and the wrap, emptied in between): every answer and count must fit the bucket as it is then.",
         "Populated directories form one contiguous run ending at the newest, upload times distinct (the statement's precondition). Hooks: verif_hooks::search, endpoint override.",
         "DESIGN.md §2 C15"),
 "C16": ("exhaustive enumeration of the 999 x 55 position space and the full successor cycle; seeded valid archive names against the integer calendar; panic monitor on a Unicode string grammar",
         "Every (volume, sequence) position x 3 prefixes parses back (sequence, type, prefix), derives all 55 other sequences keeping site/volume/prefix, and has the reference successor; the 54,945-step successor walk visits every position once and closes, never naming volume 0 or 1000; 20k valid archive names recover site and instant exactly; 120k arbitrary Unicode strings (multi-byte characters straddling the slice offsets) never panic and give None where the text unambiguously does not parse.",
         "name_prefix / with_sequence / next_chunk are only called on well-formed names (they are outside the statement's totality clause).",
         "DESIGN.md §2 C16"),
 "C17": ("loopback S3 simulator (real reqwest client through the endpoint hook) with scripted bucket contents, status plans and a full request log; reference model of ListObjectsV2 prefix/max-keys/truncation semantics; panic monitor",
         "Scenarios: archive and real-time listings of 0..1100 objects with XML-special, non-ASCII and nested keys, sizes to 2^64-1 and unparsable, timestamps with/without fractions, sibling prefixes; garbled, truncated and errored listing bodies; archive and real-time downloads of 0 B..4 MiB with statuses 200/404/403/500/301, missing Last-Modified, short and unrecognised chunk bodies, names outside ASCII; zero-byte folder-placeholder keys in listings. Oracle: identifiers one per object under the prefix in bucket order named by the final path segment and stamped with LastModified; truncated archive listing and unparsable size are errors; every object request is a GET of exactly the stated key (compared after URL decoding); bytes, Last-Modified and identifier preserved; 404 => not-found error; other status => error; never a panic.",
         "The simulator answers like S3 (entity-escaped text, sibling elements, string-prefix / max-keys / truncation semantics); listing request parameters are recorded, not judged.",
         "DESIGN.md §2 C17"),
 "C18": ("offline checker over recorded histories (requests, deliveries with logical timestamps, statistics, return value, virtual time) of the real poll_chunks run under tokio's paused clock against the S3 simulator; uploader schedule keyed to request counts; stop/drop injected at simulator sync points",
         "Each scenario scripts an upload history (start volume incl. 997/998/999/1, 1..=55 chunks present, per-chunk visibility delays and transient 404/500/403/503 within the retry budget, next volumes appearing after 0..9 empty listings with 1..3 chunks) and a termination (a chunk or a volume that never appears; stop at the j-th download; consumer dropped at the j-th download; stop before start). The checker requires: first delivery = newest chunk at start; strictly consecutive deliveries, next volume in rotation after 55 (999->1); no duplicate; payload byte-identical, labelled with its own key and upload time; every object GET is for the next expected chunk (exact, by logical time); LatestVolumeCalls equals the search's logged listings; never => ExpectedChunkNotFound with nothing delivered that never appeared and within a virtual-time bound (the size of the retry budget, the backoff lengths and the retry statistics are recorded, not judged; a scripted delay of 3..9 attempts that exceeds the client's own budget is not a violation); stop => Ok with at most one further delivery; drop => PollingAsyncError; no hang, no runaway.",
         "The directory after the newest volume is empty until uploaded (statement's model). Wall time only feeds the hang rule (60 s without any request and no return). The stop is enqueued while a download is served, so 'at most one further delivery' is checked exactly.",
         "DESIGN.md §2 C18"),
 "C19": ("reference-model monitor: exhaustive resolution patterns through the real mapping on real decoded VCP messages; rolling-window VecDeque model for the timing statistics; estimates queried after every history prefix",
         "All 2,047 half-degree patterns of 0..=10 cuts (and random lists to 32 cuts) x sequences 1..=200 must map by prefix sums (6 chunks per half-degree cut, else 3), monotone, none for chunk 1 and beyond the last cut. Estimates are queried for previous sequences 0..=60 after every prefix of recorded histories (0..50 samples, durations 0..60 s, attempts 1..5, interleaved keys), with and without statistics and upload time: none where unspecified; +10 s after an end chunk; mean of the last ten durations + (mean attempts - 1) s within the rounding band; else 11/7/4 s; never before the upload time; get_statistics equals the window model.",
         "Rounding of the two means is not fixed by the statement: anything in [floor, ceil] is accepted.",
         "DESIGN.md §2 C19"),
 "C20": ("build-status monitor over the completely enumerated feature powerset (cargo check exit status per configuration against /repo's working tree) plus a probe binary built and run per named-feature configuration under a panic monitor",
         "The property's observable is the build, so each configuration is treated as a workload whose first event is 'it compiled' (cargo check --no-default-features --features <set>, `--lib` alone first — the consumer's view, free of the feature unification the examples' dev-dependencies cause — then `--examples`) and, for the named-feature configurations, whose second event is a probe binary exercising the always-present API. Also 24 configurations in the release profile (cargo check --release --lib). quick: model 2^3, decode 2^2, facade 2^3, data named 2^2 + every optional dependency alone / every pair / all-but-one / all / a seeded greedy covering selection that stops when every 6-way on/off interaction of the ten data features occurs in a checked configuration (about 210 cells, 25 probe runs; measured 5/6/7-way coverage in the evidence: 100 % / 100 % / ~90 %). thorough: all 1,024 data combinations. The space is finite and thorough enumerates it completely.",
         "cargo check type-checks but does not link (the probe runs do); examples' dev-dependencies use workspace defaults; this check sits at the edge of the runtime-monitoring family (DESIGN.md §2 C20).",
         "DESIGN.md §2 C20"),
}
CHECKS = {k: v for k, v in CHECKS_ALL.items() if k in BUILT}

BUILDING = "check not built yet in this commit (planned: see DESIGN.md §2); it is not claimed until its command exists and is silent on the unchanged tree"

def main():
    props = [json.loads(l) for l in open(os.path.join(ROOT, "properties.jsonl"))]
    checks, na = [], []
    for p in props:
        pid = p["id"]
        if pid in CHECKS:
            tech, text, note, ref = CHECKS[pid]
            checks.append({
                "property_id": pid,
                "quick_cmd": f"./check {pid} quick",
                "thorough_cmd": f"./check {pid} thorough",
                "evidence_file": f"/verif/evidence/{pid}.json",
                "replay_cmd_template": f"./check {pid} --replay {{path}}",
                "engine": "featmatrix" if pid == "C20" else "nxverif",
                "level_claimed": {"category": "exploration", "text": text, "design_ref": ref},
                "level_note": note,
                "technique": tech + ("" if pid == "C20" else "; the same workload re-run (reduced) on the harness built in the release profile, with every optional model feature on" + (", and with nexrad-decode's default features off" if pid in ("C02","C03","C04","C07","C08","C09","C10","C11","C12","C13","C14") else "") + ", and with the wall clock moved past 2038 (LD_PRELOAD shim)" + "; second runs of cases after other cases on the same thread, failing calls ahead of cases, seed-dependent TZ / logger / environment variables; guard allocator in the main run (red zones around every heap block, junk-filled fresh and freed memory) and an AddressSanitizer lane in thorough" + ("" if pid in ("C15","C17","C18") else ", ThreadSanitizer lane (-Zbuild-std) in thorough") + ("; calls that were given up (dropped futures) ahead of cases, companion calls in flight on the same runtime, twin calls on one key" if pid in ("C15","C17","C18") else ("" if pid in ("C04","C06") else "; three shadow runs of the whole workload beside the main run in the same process (shared-state races)"))),
            })
        else:
            na.append({"property_id": pid, "reason": BUILDING})
    manifest = {
        "version": 1,
        "setup_cmd": "cd /verif/harness && CARGO_NET_OFFLINE=true cargo build --release --offline && CARGO_NET_OFFLINE=true cargo build --profile relwrap --offline && CARGO_NET_OFFLINE=true cargo build --release --offline --features allfeat --target-dir target-allfeat && CARGO_NET_OFFLINE=true cargo build --release --offline --no-default-features --features bz --target-dir target-minfeat && (clang-14 -O2 -shared -fPIC -w -o /verif/lanes/clock/nxclock.so /verif/lanes/clock/shim.c -ldl || cc -O2 -shared -fPIC -w -o /verif/lanes/clock/nxclock.so /verif/lanes/clock/shim.c -ldl)",
        "hooks": {
            "guard": "cargo feature verif-hooks on nexrad-data (off by default)",
            "enable": "the harness crate depends on nexrad-data with features=[\"verif-hooks\"]; S3 requests go to $NEXRAD_VERIF_S3_ENDPOINT when set; aws::realtime::verif_hooks::search forwards to the private rotated search",
            "baseline_off_cmd": "cd /repo && cargo test --workspace --no-fail-fast --offline",
            "source_commits": json.load(open(os.path.join(ROOT, "tools", "hook_commits.json"))),
            "add_only": True,
        },
        "engines": [
            {"name": "nxverif", "path": "/verif/harness", "serves_properties": sorted(k for k in CHECKS.keys() if k != "C20"),
             "kind_free_text": "Rust harness linking the real crates from /repo: independent ICD encoders, reference models, panic/allocator/reader-work monitors, loopback S3 simulator with request log, offline history checkers"},
            {"name": "featmatrix", "path": "/verif/featmatrix", "serves_properties": ["C20"],
             "kind_free_text": "feature-powerset enumerator driving cargo check against /repo plus a per-configuration probe binary"},
        ],
        "checks": checks,
        "notes": "Runtime monitoring and sanitizers only. Exit 0 = held on everything explored; exit 1 + VIOLATION line = unlisted violation; exit 2 = harness error or inconclusive (never a verdict). Known findings: /verif/known_findings.json.",
        "not_applicable": na,
    }
    out = os.path.join(ROOT, "MANIFEST.json")
    json.dump(manifest, open(out, "w"), indent=1)
    open(out, "a").write("\n")
    try:
        import jsonschema
        jsonschema.validate(manifest, json.load(open("/root/.vp/MANIFEST.schema.json")))
        print("MANIFEST.json valid:", len(checks), "checks,", len(na), "not_applicable")
    except ImportError:
        print("jsonschema not importable; run with python3-vt", file=sys.stderr)

if __name__ == "__main__":
    main()
