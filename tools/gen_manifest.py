#!/usr/bin/env python3
"""Regenerates /verif/MANIFEST.json from the table below and validates it against the schema."""
import json, os, sys

ROOT = os.path.dirname(os.path.dirname(os.path.abspath(__file__)))

# property id -> (technique, level text, level note, design ref)
CHECKS = {
 "C08": ("reference-model monitor (independent integer calendar) over an exhaustive enumeration of day counts, run through the real decoders; panic monitor for the out-of-range clause",
         "All 65,535 in-range day counts are driven through each of the seven public date-time accessors (via their real decoders) and compared with an independent integer calendar: instant, civil fields, strict monotonicity, decode-crate vs data-crate agreement. Exhaustive in d; t is sampled at the edges plus seeded values (all 1440 minutes on four days). Out-of-range fields are run under the panic monitor.",
         "Trusts the harness calendar (self-checked day by day over 66,000 days at start-up) and that the public decoders place the date/time fields where Appendix A says (checked separately by C02/C10/C12/C13).",
         "DESIGN.md §2 C08"),
}

BUILDING = "check not built yet in this commit (planned: see DESIGN.md §2); it is not claimed until its command exists and is silent on the unchanged tree"

def main():
    props = [json.loads(l) for l in open(os.path.join(ROOT, "properties.jsonl"))]
    checks, na = [], []
    for p in props:
        pid = p["id"]
        if pid in CHECKS:
            tech, text, note, ref = CHECKS[pid]
            checks.append({
                "property_id": pid,
                "quick_cmd": f"./check {pid} quick",
                "thorough_cmd": f"./check {pid} thorough",
                "evidence_file": f"/verif/evidence/{pid}.json",
                "replay_cmd_template": f"./check {pid} --replay {{path}}",
                "engine": "nxverif",
                "level_claimed": {"category": "exploration", "text": text, "design_ref": ref},
                "level_note": note,
                "technique": tech,
            })
        else:
            na.append({"property_id": pid, "reason": BUILDING})
    manifest = {
        "version": 1,
        "setup_cmd": "cd /verif/harness && CARGO_NET_OFFLINE=true cargo build --release --offline",
        "hooks": {
            "guard": "cargo feature verif-hooks on nexrad-data (off by default)",
            "enable": "the harness crate depends on nexrad-data with features=[\"verif-hooks\"]; S3 requests go to $NEXRAD_VERIF_S3_ENDPOINT when set; aws::realtime::verif_hooks::search forwards to the private rotated search",
            "baseline_off_cmd": "cd /repo && cargo test --workspace --no-fail-fast --offline",
            "source_commits": json.load(open(os.path.join(ROOT, "tools", "hook_commits.json"))),
            "add_only": True,
        },
        "engines": [
            {"name": "nxverif", "path": "/verif/harness", "serves_properties": sorted(CHECKS.keys()),
             "kind_free_text": "Rust harness linking the real crates from /repo: independent ICD encoders, reference models, panic/allocator/reader-work monitors, loopback S3 simulator with request log, offline history checkers"},
        ],
        "checks": checks,
        "notes": "Runtime monitoring and sanitizers only. Exit 0 = held on everything explored; exit 1 + VIOLATION line = unlisted violation; exit 2 = harness error or inconclusive (never a verdict). Known findings: /verif/known_findings.json.",
        "not_applicable": na,
    }
    out = os.path.join(ROOT, "MANIFEST.json")
    json.dump(manifest, open(out, "w"), indent=1)
    open(out, "a").write("\n")
    try:
        import jsonschema
        jsonschema.validate(manifest, json.load(open("/root/.vp/MANIFEST.schema.json")))
        print("MANIFEST.json valid:", len(checks), "checks,", len(na), "not_applicable")
    except ImportError:
        print("jsonschema not importable; run with python3-vt", file=sys.stderr)

if __name__ == "__main__":
    main()
