//! Per-configuration probe: exercises the API that exists under every feature combination and
//! reports a panic as failure (the configuration's first observed event is "it compiled", the
//! second is "its always-present API runs").
use nexrad_data::volume::{File, Record};
use nexrad_model::data::{MomentData, Radial, RadialStatus, Sweep};

fn main() {
    let r = std::panic::catch_unwind(|| {
        let f = File::new(vec![0u8; 40]);
        assert_eq!(f.data().len(), 40);
        let _ = format!("{:?}", f);
        let short = File::new(vec![1, 2, 3]);
        assert!(short.records().is_empty());
        let _ = format!("{:?}", short);
        let rec = Record::new(vec![0, 0, 0, 4, b'B', b'Z', b'h', b'9']);
        assert!(rec.compressed());
        assert!(!Record::from_slice(&[0, 0, 0, 1, 7]).compressed());
        let _ = format!("{:?}", rec);
        let rad = Radial::new(
            1, 2, 3.0, 0.5, RadialStatus::ElevationStart, 4, 0.5,
            Some(MomentData::from_fixed_point(2.0, 66.0, vec![0, 1, 2, 200])),
            None, None, None, None, None, None,
        );
        let _ = format!("{:?}", rad);
        let sweeps = Sweep::from_radials(vec![rad.clone(), rad]);
        assert_eq!(sweeps.len(), 1);
        assert_eq!(sweeps[0].radials().len(), 2);
    });
    match r {
        Ok(()) => println!("PROBE-OK"),
        Err(_) => {
            println!("PROBE-PANIC");
            std::process::exit(1);
        }
    }
}
