#!/bin/bash
exec python3 "$(dirname "$0")/run.py" "$@"
