#!/usr/bin/env python3
"""C20 — every feature combination of the four crates builds.

Each configuration is a workload whose observed event is the exit status of
  cargo check --offline -p <crate> --no-default-features --features <set> --lib --examples
run against /repo's working tree (target dirs outside /repo).  For the named-feature powersets a
small probe binary is additionally built against that exact configuration and run."""
import re
import itertools, json, os, shutil, subprocess, sys, time, threading, queue

ROOT = os.path.dirname(os.path.dirname(os.path.abspath(__file__)))
REPO = os.environ.get("NEXRAD_REPO", "/repo")
SEED = int(os.environ.get("VERIF_SEED", "1"))

def manifest_features(crate):
    """Named features (except `default` and the verification guard) and optional dependencies of a
    crate, read from its Cargo.toml in the tree under test, so that a feature added later is part of
    the enumerated space without touching this script."""
    import tomllib
    m = tomllib.load(open(os.path.join(REPO, crate, "Cargo.toml"), "rb"))
    named = [f for f in m.get("features", {}) if f not in ("default", "verif-hooks")]
    opt = [d for d, v in m.get("dependencies", {}).items() if isinstance(v, dict) and v.get("optional")]
    named = [f for f in named if f not in opt]
    return named, opt

_n, _o = manifest_features("nexrad-model"); MODEL = _n + _o
_n, _o = manifest_features("nexrad-decode"); DECODE = _n + _o
_n, _o = manifest_features("nexrad"); FACADE = _n + _o
DATA_NAMED, DATA_OPT = manifest_features("nexrad-data")

def powerset(xs):
    for r in range(len(xs) + 1):
        for c in itertools.combinations(xs, r):
            yield list(c)

TWAY = {}

def cells(tier):
    out = []
    for s in powerset(MODEL):
        out.append(("nexrad-model", s))
    for s in powerset(DECODE):
        out.append(("nexrad-decode", s))
    for s in powerset(FACADE):
        out.append(("nexrad", s))
    data_all = DATA_NAMED + DATA_OPT
    if tier == "thorough":
        for s in powerset(data_all):
            out.append(("nexrad-data", s))
    else:
        seen = set()
        def add(s):
            k = tuple(sorted(s))
            if k not in seen:
                seen.add(k)
                out.append(("nexrad-data", sorted(s, key=data_all.index)))
        for s in powerset(DATA_NAMED):
            add(s)
        for o in DATA_OPT:                      # every optional dependency alone, with each named set
            for n in powerset(DATA_NAMED):
                add(n + [o])
        for a, b in itertools.combinations(DATA_OPT, 2):   # every pair of optional dependencies alone
            add([a, b])
        for o in data_all:                      # all but one
            add([x for x in data_all if x != o])
        add(data_all)
        # Seeded greedy covering selection: a build break that needs a particular on/off setting
        # of t of the ten features shows only in 1/2^t of the space.  Subsets are added (best of a
        # seeded random pool each round) until every 6-way on/off interaction (210 x 64 of them)
        # occurs in a checked configuration, capped at 230 additions; the coverage actually reached
        # for t = 5, 6, 7 is measured and written to the evidence.
        import random
        rnd = random.Random(SEED)
        n = len(data_all)
        combos6 = list(itertools.combinations(range(n), 6))
        def inter_ids(mask, combos):
            ids = []
            for ci, c in enumerate(combos):
                v = 0
                for k, i in enumerate(c):
                    v |= ((mask >> i) & 1) << k
                ids.append(ci * (1 << len(c)) + v)
            return ids
        def mask_of(s):
            return sum(1 << data_all.index(x) for x in s)
        covered6 = set()
        for (_c, s_) in [o for o in out if o[0] == "nexrad-data"]:
            covered6.update(inter_ids(mask_of(s_), combos6))
        total6 = len(combos6) * 64
        added = 0
        while len(covered6) < total6 and added < 230:
            best, best_gain, best_ids = None, -1, None
            for _ in range(64):
                m = rnd.getrandbits(n)
                ids = inter_ids(m, combos6)
                gain = sum(1 for i in ids if i not in covered6)
                if gain > best_gain:
                    best, best_gain, best_ids = m, gain, ids
            if best_gain <= 0:
                continue
            before = len(out)
            add([x for i, x in enumerate(data_all) if (best >> i) & 1])
            if len(out) > before:
                added += 1
            covered6.update(best_ids)
        global TWAY
        TWAY = {}
        masks = [mask_of(s_) for (c_, s_) in out if c_ == "nexrad-data"]
        for t in (5, 6, 7):
            combos = list(itertools.combinations(range(n), t))
            cov = set()
            for m in masks:
                cov.update(inter_ids(m, combos))
            TWAY[str(t)] = {"interactions": len(combos) * (1 << t), "covered": len(cov)}
    out.append(("nexrad-data", ["aws", "decode", "nexrad-model", "verif-hooks"]))
    return out

def release_cells():
    """Configurations also checked in the release profile (`cargo check --release --lib`): code under
    cfg(debug_assertions) / cfg(not(debug_assertions)) and the arguments of debug_assert! are only
    type-checked one way in each profile, so a combination can build in dev and not in release."""
    out = []
    for s in powerset(MODEL):
        out.append(("nexrad-model", s))
    for s in powerset(DECODE):
        out.append(("nexrad-decode", s))
    for s in powerset(FACADE):
        out.append(("nexrad", s))
    for s in powerset(DATA_NAMED):
        out.append(("nexrad-data", s))
    return out

def doctest_cells():
    """Configurations whose documentation examples are compiled too (`cargo test --doc`): a doc
    example is code of the crate that a consumer's `cargo test` builds with the consumer's features;
    an example that uses an item gated differently from the item it documents stops that build."""
    out = []
    for s in powerset(MODEL):
        out.append(("nexrad-model", s))
    for s in powerset(DECODE):
        out.append(("nexrad-decode", s))
    for s in powerset(DATA_NAMED):
        out.append(("nexrad-data", s))
    for o in DATA_OPT:
        out.append(("nexrad-data", [o]))
    out.append(("nexrad-data", DATA_NAMED + DATA_OPT))
    return out

def run_doctests(crate, feats, target):
    cmd = ["cargo", "test", "--offline", "--doc", "--manifest-path", os.path.join(REPO, "Cargo.toml"), "-p", crate,
           "--no-default-features", "--target-dir", target, "-q"]
    if feats:
        cmd += ["--features", ",".join(feats)]
    t0 = time.time()
    p = subprocess.run(cmd, capture_output=True, text=True, env=dict(os.environ, CARGO_NET_OFFLINE="true"))
    out = p.stdout + p.stderr
    # only a failure to *compile* is this property's business (an example that runs and fails is not)
    broken = p.returncode != 0 and (re.search(r"error(\[E\d+\])?:", out) is not None or "could not compile" in out)
    return (1 if broken else 0), out[-4000:], " ".join(cmd), time.time() - t0

def run_cell(crate, feats, target, release=False):
    """Two observations per configuration:
    1. `--lib` alone — what a downstream consumer with exactly these features compiles.  (Checking
       `--lib --examples` together would let cargo unify the features requested by the examples'
       dev-dependencies into the library and mask a missing gate.)
    2. `--examples` — every example whose required-features are enabled."""
    base = ["cargo", "check", "--offline", "--manifest-path", os.path.join(REPO, "Cargo.toml"), "-p", crate,
            "--no-default-features", "--target-dir", target, "-q"]
    if feats:
        base += ["--features", ",".join(feats)]
    t0 = time.time()
    env = dict(os.environ, CARGO_NET_OFFLINE="true")
    if release:
        cmd = base + ["--release", "--lib"]
        p = subprocess.run(cmd, capture_output=True, text=True, env=env)
        return p.returncode, p.stderr, " ".join(cmd), time.time() - t0
    for extra in (["--lib"], ["--examples"]):
        cmd = base + extra
        p = subprocess.run(cmd, capture_output=True, text=True, env=env)
        if p.returncode != 0:
            return p.returncode, p.stderr, " ".join(cmd), time.time() - t0
    return 0, "", " ".join(base + ["--lib", "&&", "...", "--examples"]), time.time() - t0

PROBE_CONFIGS = [m + d for m in [[], ["model-chrono"], ["model-uom"], ["model-serde"], ["model-chrono", "model-uom", "model-serde"]]
                 for d in [[], ["data-aws"], ["data-decode"], ["data-model"], ["data-aws", "data-decode", "data-model"]]]

def run_probe(feats, target):
    cmd = ["cargo", "run", "--offline", "--manifest-path", os.path.join(ROOT, "featmatrix", "probe", "Cargo.toml"),
           "--no-default-features", "--target-dir", target, "-q"]
    if feats:
        cmd += ["--features", ",".join(feats)]
    p = subprocess.run(cmd, capture_output=True, text=True, env=dict(os.environ, CARGO_NET_OFFLINE="true"))
    ok = p.returncode == 0 and "PROBE-OK" in p.stdout
    return ok, (p.stdout + p.stderr)[-3000:], " ".join(cmd)

def main():
    if len(sys.argv) >= 3 and sys.argv[1] == "--replay":
        r = json.load(open(sys.argv[2]))
        print("replaying:", r["case"]["cmd"])
        rc = subprocess.call(r["case"]["cmd"].split())
        print("exit status", rc)
        sys.exit(1 if rc != 0 else 0)
    tier = sys.argv[1] if len(sys.argv) > 1 else "quick"
    if tier not in ("quick", "thorough"):
        print("usage: run.sh quick|thorough | --replay <path>"); sys.exit(2)
    t0 = time.time()
    persistent = os.path.join(ROOT, "featmatrix", "target")
    scratch_root = os.environ.get("VERIF_SCRATCH", "/var/tmp")
    workers = 4 if tier == "quick" else 8
    targets, temp_targets = [], []
    for w in range(workers):
        if w < 4:
            targets.append(os.path.join(persistent, f"w{w}"))
        else:
            d = os.path.join(scratch_root, f"nxv-featmatrix-{os.getpid()}-w{w}")
            targets.append(d); temp_targets.append(d)
    todo = cells(tier)
    q = queue.Queue()
    for i, c in enumerate(todo):
        q.put((i, c))
    results = [None] * len(todo)
    def worker(target):
        while True:
            try:
                i, (crate, feats) = q.get_nowait()
            except queue.Empty:
                return
            results[i] = (crate, feats) + run_cell(crate, feats, target)
    threads = [threading.Thread(target=worker, args=(t,)) for t in targets]
    for t in threads: t.start()
    for t in threads: t.join()
    # second pass: the release profile (two workers: the dependencies' release metadata is built once each)
    rel = release_cells()
    rq = queue.Queue()
    for i, c in enumerate(rel):
        rq.put((i, c))
    rel_results = [None] * len(rel)
    def rel_worker(target):
        while True:
            try:
                i, (crate, feats) = rq.get_nowait()
            except queue.Empty:
                return
            rel_results[i] = (crate, feats) + run_cell(crate, feats, target, release=True)
    threads = [threading.Thread(target=rel_worker, args=(t,)) for t in targets[:2]]
    for t in threads: t.start()
    for t in threads: t.join()
    # third pass: documentation examples
    doc = doctest_cells()
    dq = queue.Queue()
    for i, c in enumerate(doc):
        dq.put((i, c))
    doc_results = [None] * len(doc)
    def doc_worker(target):
        while True:
            try:
                i, (crate, feats) = dq.get_nowait()
            except queue.Empty:
                return
            doc_results[i] = (crate, feats) + run_doctests(crate, feats, target)
    threads = [threading.Thread(target=doc_worker, args=(t,)) for t in targets[:2]]
    for t in threads: t.start()
    for t in threads: t.join()
    probe_results = []
    for feats in PROBE_CONFIGS:
        probe_results.append((feats,) + run_probe(feats, targets[0]))
    for d in temp_targets:
        shutil.rmtree(d, ignore_errors=True)

    failures = [(crate, feats, err, cmd) for (crate, feats, rc, err, cmd, _) in results if rc != 0]
    probe_fail = [(f, out, cmd) for (f, ok, out, cmd) in probe_results if not ok]
    known = {}
    try:
        kf = json.load(open(os.path.join(ROOT, "known_findings.json")))
        known = {k["signature"]: k.get("what", "") for k in kf.get("known", []) if k.get("property") == "C20"}
    except Exception:
        pass
    os.makedirs(os.path.join(ROOT, "replays"), exist_ok=True)
    os.makedirs(os.path.join(ROOT, "evidence"), exist_ok=True)
    fresh, known_hits = [], []
    for crate, feats, err, cmd in failures:
        sig = f"{crate} features=[{','.join(feats)}] does not build"
        (known_hits if sig in known else fresh).append((sig, err, cmd))
    for (crate, feats, rc, err, cmd, _) in rel_results:
        if rc != 0:
            sig = f"{crate} features=[{','.join(feats)}] does not build in the release profile"
            (known_hits if sig in known else fresh).append((sig, err, cmd))
    for (crate, feats, rc, err, cmd, _) in doc_results:
        if rc != 0:
            sig = f"{crate} features=[{','.join(feats)}] documentation examples do not build"
            (known_hits if sig in known else fresh).append((sig, err, cmd))
    for feats, out, cmd in probe_fail:
        sig = f"probe features=[{','.join(feats)}] fails"
        (known_hits if sig in known else fresh).append((sig, out, cmd))
    distinct = len({(c, tuple(f)) for (c, f, *_rest) in results if f})
    per_crate = {}
    for (c, f, rc, *_r) in results:
        per_crate.setdefault(c, [0, 0]); per_crate[c][0] += 1; per_crate[c][1] += (rc == 0)
    evidence = {
        "property_id": "C20", "tier": tier, "seed": SEED, "level": "exploration",
        "coverage": {
            "evaluations": len(results) + len(probe_results) + len(rel_results) + len(doc_results),
            "documentation_example_configurations": {"checked": len(doc_results), "built": sum(1 for r in doc_results if r[2] == 0)},
            "release_profile_configurations": {"checked": len(rel_results), "built": sum(1 for r in rel_results if r[2] == 0)},
            "distinct_nontrivial": distinct,
            "rule": "a case is one (crate, feature set) configuration checked with cargo check --no-default-features --features <set>, first `--lib` alone (the consumer's view; no dev-dependency feature unification), then `--examples`, against /repo's working tree, or one probe binary built and run against a named-feature configuration; trivial = empty feature set; distinct = distinct non-empty (crate, feature set) pairs; oracle = cargo's exit status / probe prints PROBE-OK",
            "samples": [{"crate": c, "features": f, "exit": rc, "seconds": round(dt, 2), "cmd": cmd} for (c, f, rc, _e, cmd, dt) in results[:3] + results[-2:]],
            "exhaustive": True,
            "exhaustive_subdomain": ("model 2^3, decode 2^2, facade 2^3, data 2^10 (named + optional-dependency features) + verif-hooks on" if tier == "thorough"
                                     else "model 2^3, decode 2^2, facade 2^3, data named-feature powerset 2^2; data optional dependencies: each alone with each named set, every pair alone, all-but-one, all, plus a seeded greedy covering selection until every 6-way on/off interaction of the ten features is covered (measured t-way coverage under observed.t_way_interaction_coverage)"),
            "observed": {"cells_checked": len(results), "cells_built": sum(1 for r in results if r[2] == 0),
                         "per_crate_checked_built": per_crate,
                         "probe_runs": len(probe_results), "probe_ok": sum(1 for p in probe_results if p[1]),
                         "t_way_interaction_coverage": TWAY},
            "known_findings_matched": [s for (s, _, _) in known_hits],
            "violation_signatures": [s for (s, _, _) in fresh][:40],
        },
        "assumptions": ["building = cargo check (type-checks every item incl. examples whose required-features are enabled); linking is exercised only by the probe runs",
                        "dev-dependencies of the examples use their workspace default features"],
        "wall_s": round(time.time() - t0, 3),
        "violations": len(fresh),
    }
    json.dump(evidence, open(os.path.join(ROOT, "evidence", "C20.json"), "w"), indent=1)
    print(f"observed: property=C20 tier={tier} cells={len(results)} built={sum(1 for r in results if r[2]==0)} probes={len(probe_results)} probe_ok={sum(1 for p in probe_results if p[1])} wall_s={time.time()-t0:.1f}")
    for c, (n, ok) in per_crate.items():
        print(f"observed: {c}: {ok}/{n} configurations build")
    for sig, _, _ in known_hits:
        print(f"KNOWN-FINDING: property=C20 signature={sig!r} {known.get(sig,'')}")
    if fresh:
        for i, (sig, err, cmd) in enumerate(fresh[:40]):
            path = os.path.join(ROOT, "replays", f"C20-{tier}-s{SEED}-{i}.json")
            json.dump({"property": "C20", "tier": tier, "seed": SEED, "signature": sig, "detail": err[-4000:], "case": {"cmd": cmd}}, open(path, "w"), indent=1)
            print(f"violation-detail: [{sig}] " + (err.strip().splitlines()[0] if err.strip() else ""))
            print(f"VIOLATION property=C20 replay={path}")
        sys.exit(1)
    if len(results) < 20:
        print("INCONCLUSIVE: property=C20 observed too little"); sys.exit(2)
    print(f"HELD: property=C20 on {len(results)} configurations (dev profile) + {len(rel_results)} in the release profile + {len(doc_results)} with documentation examples + {len(probe_results)} probe runs")
    sys.exit(0)

if __name__ == "__main__":
    main()
